// C13: Close is complete; lifecycle callbacks are balanced and ordered.
//
// A library of scenarios (play / record over UDP, TCP, tunnels, multicast, plain and TLS; raw
// peers that stop reading or send half a request) is cut at every protocol step boundary and
// one of Server.Close / ServerStream.Close / Client.Close / peer disconnect / several at once
// is issued there, concurrently with packet writers. Monitors: every Close (and every API call)
// returns within a generous watchdog; after each batch no library goroutine and no socket
// remains; the callback log is balanced and ordered; no session callback after OnSessionClose.
package main

import (
	"fmt"
	"math/rand"
	"net"
	"runtime"
	"runtime/debug"
	"sort"
	"strings"
	"sync"
	"sync/atomic"
	"time"

	"github.com/bluenviron/gortsplib/v5"
	"github.com/bluenviron/gortsplib/v5/pkg/base"
	"github.com/bluenviron/gortsplib/v5/pkg/description"
	"github.com/bluenviron/gortsplib/v5/pkg/format"
	"github.com/bluenviron/gortsplib/v5/pkg/headers"
	"github.com/pion/rtp"

	"verif/lib/rig"
	"verif/lib/vlib"
)

type caseSpec struct {
	Scenario  string `json:"scenario"`  // play | record | raw-noread | raw-half
	Transport string `json:"transport"` // udp | tcp | http | ws | mcast
	TLS       bool   `json:"tls"`
	Clients   int    `json:"clients"`
	Cut       int    `json:"cut"`    // the action is issued after this step of client 0 (-1: before it connects)
	Action    string `json:"action"` // server-close | stream-close | client-close | both | peer-disconnect
	YieldPm   int    `json:"yield_permil"`
	Seed      int64  `json:"seed"`
}

func (c caseSpec) String() string {
	return fmt.Sprintf("%s/%s%s/x%d/cut%d/%s", c.Scenario, c.Transport, map[bool]string{true: "+tls", false: ""}[c.TLS], c.Clients, c.Cut, c.Action)
}

var (
	run     *vlib.Run
	canary  *rig.Canary
	evals   atomic.Int64
	aborted atomic.Bool // a Close hung: the process state is no longer clean
)

const (
	ioTimeout = 1 * time.Second
	callBound = 12 * time.Second // watchdog for any Close / API call (timeouts are 1 s)
)

// timed runs fn under the watchdog; returns false if it did not return in time.
func timed(what string, c caseSpec, fn func()) bool {
	done := make(chan struct{})
	t0 := time.Now()
	go func() {
		defer close(done)
		fn()
	}()
	select {
	case <-done:
		run.Max("max-latency-ms:"+what, time.Since(t0).Milliseconds())
		return true
	case <-time.After(callBound):
		if canary.WorstSince(t0) > 250*time.Millisecond {
			run.Inconclusive("watchdog-late-canary:" + what)
			// give it more time; if it still does not return the process is unusable
			select {
			case <-done:
				return true
			case <-time.After(callBound):
			}
		}
		buf := make([]byte, 1<<20)
		buf = buf[:runtime.Stack(buf, true)]
		aborted.Store(true)
		run.Violation("call-does-not-return/"+what+"/"+c.Scenario+"-"+c.Transport,
			fmt.Sprintf("%s did not return within %v in case %s", what, callBound, c), map[string]any{"case": c, "goroutines": string(buf)})
		return false
	}
}

// cbLog is the per-case callback log checker.
type cbLog struct {
	mu        sync.Mutex
	connOpen  map[*gortsplib.ServerConn]int
	connClose map[*gortsplib.ServerConn]int
	sessOpen  map[*gortsplib.ServerSession]int
	sessClose map[*gortsplib.ServerSession]int
	closedAt  map[*gortsplib.ServerSession]int64
	bad       []string
	events    int
}

func newCbLog() *cbLog {
	return &cbLog{connOpen: map[*gortsplib.ServerConn]int{}, connClose: map[*gortsplib.ServerConn]int{},
		sessOpen: map[*gortsplib.ServerSession]int{}, sessClose: map[*gortsplib.ServerSession]int{}, closedAt: map[*gortsplib.ServerSession]int64{}}
}

// openConns returns the connections whose OnConnOpen was seen and whose OnConnClose was not.
func (l *cbLog) openConns() []*gortsplib.ServerConn {
	l.mu.Lock()
	defer l.mu.Unlock()
	var out []*gortsplib.ServerConn
	for sc, n := range l.connOpen {
		if n > l.connClose[sc] {
			out = append(out, sc)
		}
	}
	return out
}

func (l *cbLog) onEvent(e rig.Event) {
	l.mu.Lock()
	defer l.mu.Unlock()
	l.events++
	switch e.Kind {
	case "conn-open":
		l.connOpen[e.Conn]++
	case "conn-close":
		l.connClose[e.Conn]++
		if l.connOpen[e.Conn] == 0 {
			l.bad = append(l.bad, "conn-close-before-open")
		}
	case "session-open":
		l.sessOpen[e.Sess]++
	case "session-close":
		l.sessClose[e.Sess]++
		l.closedAt[e.Sess] = e.Clock
		if l.sessOpen[e.Sess] == 0 {
			l.bad = append(l.bad, "session-close-before-open")
		}
	case "request", "response":
		if l.connClose[e.Conn] > 0 {
			l.bad = append(l.bad, e.Kind+"-callback-after-conn-close")
		}
	case "announce", "setup", "play", "record", "pause", "getparam", "setparam", "packet-rtp", "packets-lost", "decode-error", "stream-write-error":
		if e.Sess != nil && l.sessClose[e.Sess] > 0 {
			l.bad = append(l.bad, e.Kind+"-callback-after-session-close")
		}
	}
}

// packetAfterClose is called from packet callbacks (online monitor).
func (l *cbLog) packet(ss *gortsplib.ServerSession) {
	l.mu.Lock()
	if l.sessClose[ss] > 0 {
		l.bad = append(l.bad, "packet-rtp-callback-after-session-close")
	}
	l.events++
	l.mu.Unlock()
}

func (l *cbLog) verdict(c caseSpec) {
	l.mu.Lock()
	defer l.mu.Unlock()
	w := map[string]any{"case": c}
	for _, b := range l.bad {
		run.Violation("callbacks/"+b, fmt.Sprintf("%s in case %s", b, c), w)
	}
	for sc, n := range l.connOpen {
		if n != 1 || l.connClose[sc] != 1 {
			run.Violation("callbacks/conn-unbalanced", fmt.Sprintf("OnConnOpen x%d / OnConnClose x%d for one connection in case %s", n, l.connClose[sc], c), w)
			break
		}
	}
	for ss, n := range l.sessOpen {
		if n != 1 || l.sessClose[ss] != 1 {
			run.Violation("callbacks/session-unbalanced", fmt.Sprintf("OnSessionOpen x%d / OnSessionClose x%d for one session in case %s", n, l.sessClose[ss], c), w)
			break
		}
	}
	run.Count("callbacks-logged", int64(l.events))
	run.Count("connections-balanced", int64(len(l.connOpen)))
	run.Count("sessions-balanced", int64(len(l.sessOpen)))
}

func clientOpts(c caseSpec, name string) rig.ClientOpts {
	o := rig.ClientOpts{Name: name, ReadTimeout: ioTimeout, WriteTimeout: ioTimeout}
	switch c.Transport {
	case "udp", "tcp", "mcast":
		o.Proto = c.Transport
	case "http":
		o.Proto, o.Tunnel = "tcp", gortsplib.TunnelHTTP
	case "ws":
		o.Proto, o.Tunnel = "tcp", gortsplib.TunnelWebSocket
	}
	// every connection the client dials is tracked: after Close it must have been closed by the
	// client (a descriptor census alone can be emptied by finalizers)
	o.Mutate = func(cl *gortsplib.Client) {
		t := &rig.DialTracker{}
		cl.DialContext = t.DialContext
		dialTrackers.Store(cl, t)
	}
	if c.Transport == "udp" && c.Seed%3 == 0 {
		// a narrow source port range in which most pairs are half busy (the odd port is taken by
		// somebody else): the client has to give back the even port of every pair it tried
		lo := uint16(20000 + (portBlocks.Add(1)%1500)*16)
		prev := o.Mutate
		o.Mutate = func(cl *gortsplib.Client) {
			prev(cl)
			cl.UDPSourcePortRange = [2]uint16{lo, lo + 15}
			for k := uint16(0); k < 8; k++ {
				if k == 2 || k == 5 {
					continue // two pairs stay free
				}
				if pc, err := net.ListenPacket("udp", fmt.Sprintf(":%d", lo+2*k+1)); err == nil {
					blockMu.Lock()
					blockers = append(blockers, pc)
					blockMu.Unlock()
				}
			}
			run.Count("udp-clients-with-half-busy-source-port-pairs", 1)
		}
	}
	return o
}

var (
	portBlocks atomic.Int64
	blockMu    sync.Mutex
	blockers   []net.PacketConn // the harness's own sockets on odd ports, closed before each census
)

func closeBlockers() {
	blockMu.Lock()
	for _, b := range blockers {
		_ = b.Close()
	}
	blockers = nil
	blockMu.Unlock()
}

var dialTrackers sync.Map // *gortsplib.Client -> *rig.DialTracker

// reportPeriod: 0 (library default, 10 s) or 2 ms, by the case's seed.
func reportPeriod(c caseSpec) time.Duration {
	if c.Seed%2 == 0 {
		return 2 * time.Millisecond
	}
	return 0
}

// runCase executes one cut x action case.
func runCase(c caseSpec) {
	if aborted.Load() {
		return
	}
	if c.Scenario == "mcast-fault" {
		runMcastFault(c)
		return
	}
	if c.Scenario == "tunnel-reset" {
		runTunnelReset(c)
		return
	}
	evals.Add(1)
	run.Count("cases:"+c.Scenario+"/"+c.Action, 1)
	log := newCbLog()
	desc := rig.MakeDesc([]int{1, 1})
	ts, err := rig.StartServer(rig.ServerOpts{
		UDP: true, Multicast: c.Transport == "mcast", TLS: c.TLS, HandlerSet: "full", NoLog: true,
		OnEvent: log.onEvent, Desc: desc, ReadTimeout: ioTimeout, WriteTimeout: ioTimeout, IdleTimeout: 2 * time.Second,
		WriteQueueSize: 64,
		// frequent RTCP reports (half of the cases): the report goroutines of sessions and streams
		// are busy while everything is being closed
		SenderReportPeriod: reportPeriod(c), ReceiverReportPeriod: reportPeriod(c),
		PreStart: func(ts *rig.TestServer) {
			ts.Core.OnRecordPacket = func(ss *gortsplib.ServerSession, _ *description.Media, _ format.Format, _ *rtp.Packet) {
				// a deliberately slow application callback: a packet that is being processed
				// while the session closes must be finished (or never started) before
				// OnSessionClose is delivered
				log.packet(ss)
				if c.Action == "conn-kick" {
					// slower than the publisher writes: frames pile up in the connection's read buffer
					time.Sleep(2 * time.Millisecond)
				} else {
					time.Sleep(300 * time.Microsecond)
				}
				log.packet(ss)
			}
		},
	})
	if err != nil {
		run.Inconclusive("server-start-failed")
		return
	}
	r := rand.New(rand.NewSource(c.Seed))

	// a writer keeps writing to the stream for the whole case (errors are fine, hangs are not)
	stopW := make(chan struct{})
	var wwg sync.WaitGroup
	tr := rig.NewTraffic(2, rig.FlowPairs(desc), r, false)
	for i, f := range tr.Flows {
		wwg.Add(1)
		go func(i int, f *rig.Flow) {
			defer wwg.Done()
			wr := rand.New(rand.NewSource(c.Seed + int64(i)))
			m := desc.Medias[f.Media]
			rig.WriteLoop(f, wr, 1<<30, 600, 100*time.Microsecond, func(p *rtp.Packet) error { return ts.Stream.WritePacketRTP(m, p) }, stopW)
		}(i, f)
	}

	var cutOnce sync.Once
	cutReached := make(chan struct{})
	reach := func(step int) {
		if step == c.Cut {
			cutOnce.Do(func() { close(cutReached) })
		}
	}

	var cwg sync.WaitGroup
	var clients []*gortsplib.Client
	var peers []*rig.Peer
	var cmu sync.Mutex
	if c.Cut < 0 {
		reach(-1)
	}
	for i := 0; i < c.Clients; i++ {
		i := i
		cwg.Add(1)
		go func() {
			defer cwg.Done()
			lead := i == 0
			at := func(step int) {
				if lead {
					reach(step)
					if step == c.Cut {
						// let the action start while this client goes on
						time.Sleep(time.Duration(c.Seed%300) * time.Microsecond)
					}
				}
			}
			switch c.Scenario {
			case "play":
				pc, err := rig.NewPlayClient(ts, clientOpts(c, fmt.Sprintf("c13-%d", i)))
				if err != nil {
					return
				}
				ok := timed("Client.Start", c, func() { err = pc.C.Start() })
				if ok && err == nil {
					// only a started client may be closed
					cmu.Lock()
					clients = append(clients, pc.C)
					cmu.Unlock()
				}
				at(0)
				if !ok || err != nil {
					return
				}
				var d *description.Session
				if !timed("Client.Describe", c, func() { d, _, err = pc.C.Describe(pc.URL) }) || err != nil {
					at(1)
					return
				}
				at(1)
				for mi, m := range d.Medias {
					if !timed("Client.Setup", c, func() { _, err = pc.C.Setup(d.BaseURL, m, 0, 0) }) || err != nil {
						at(2 + mi)
						return
					}
					at(2 + mi)
				}
				pc.C.OnPacketRTPAny(func(*description.Media, format.Format, *rtp.Packet) {})
				if !timed("Client.Play", c, func() { _, err = pc.C.Play(nil) }) || err != nil {
					at(4)
					return
				}
				at(4)
				time.Sleep(15 * time.Millisecond)
				at(5)
				if c.Transport != "mcast" {
					if !timed("Client.Pause", c, func() { _, err = pc.C.Pause() }) || err != nil {
						at(6)
						return
					}
					at(6)
					if !timed("Client.Play", c, func() { _, err = pc.C.Play(nil) }) || err != nil {
						at(7)
						return
					}
				}
				at(7)
				time.Sleep(15 * time.Millisecond)
				at(8)
			case "record":
				o := clientOpts(c, fmt.Sprintf("c13-pub-%d", i))
				o.Path = fmt.Sprintf("/pub%d", i)
				pdesc := rig.MakeDesc([]int{1, 1})
				cl, u, err := rigNewClient(ts, o)
				if err != nil {
					return
				}
				ok := timed("Client.StartRecording", c, func() { err = cl.StartRecording(u, pdesc) })
				if ok && err == nil {
					cmu.Lock()
					clients = append(clients, cl)
					cmu.Unlock()
				}
				at(0)
				if !ok || err != nil {
					return
				}
				ptr := rig.NewTraffic(1, rig.FlowPairs(pdesc), rand.New(rand.NewSource(c.Seed+int64(100+i))), false)
				for k := 0; k < 40; k++ {
					for _, f := range ptr.Flows {
						p, idx := f.Next(r2(c.Seed, i, k), 600, false)
						var werr error
						if !timed("Client.WritePacketRTP", c, func() { werr = cl.WritePacketRTP(pdesc.Medias[f.Media], p) }) {
							return
						}
						f.Done(idx, werr)
					}
					if k == 10 {
						at(1)
					}
					time.Sleep(300 * time.Microsecond)
				}
				at(2)
				if !timed("Client.Pause", c, func() { _, err = cl.Pause() }) || err != nil {
					at(3)
					return
				}
				at(3)
				if !timed("Client.Record", c, func() { _, err = cl.Record() }) || err != nil {
					at(4)
					return
				}
				at(4)
			case "raw-noread":
				// a peer that plays over interleaved TCP and never reads: the server's queue and the
				// socket buffers fill up
				p, err := rig.Dial(ts.Addr(), ts.TLSCfg, "")
				if err != nil {
					return
				}
				cmu.Lock()
				peers = append(peers, p)
				cmu.Unlock()
				at(0)
				sess := ""
				for mi := 0; mi < 2; mi++ {
					th := headers.Transport{Protocol: headers.TransportProtocolTCP, InterleavedIDs: &[2]int{2 * mi, 2*mi + 1}}
					h := base.Header{"Transport": th.Marshal()}
					if sess != "" {
						h["Session"] = base.HeaderValue{sess}
					}
					res, err := p.Do(p.Request(base.Setup, fmt.Sprintf("%s/trackID=%d", ts.URL("/stream"), mi), h, nil), 5*time.Second)
					if err != nil || res.StatusCode != base.StatusOK {
						at(1 + mi)
						return
					}
					var hs headers.Session
					if hs.Unmarshal(res.Header["Session"]) == nil {
						sess = hs.Session
					}
					at(1 + mi)
				}
				if err := p.Send(p.Request(base.Play, ts.URL("/stream"), base.Header{"Session": base.HeaderValue{sess}}, nil)); err != nil {
					return
				}
				at(3)
				// never read again; let the buffers fill
				time.Sleep(40 * time.Millisecond)
				at(4)
			case "raw-half":
				// half a request, then silence
				p, err := rig.Dial(ts.Addr(), ts.TLSCfg, "")
				if err != nil {
					return
				}
				cmu.Lock()
				peers = append(peers, p)
				cmu.Unlock()
				at(0)
				req := p.Request(base.Describe, ts.URL("/stream"), nil, nil)
				b, _ := req.Marshal()
				_ = p.WriteRaw(b[:1+r2(c.Seed, i, 0).Intn(len(b)-1)])
				at(1)
				time.Sleep(5 * time.Millisecond)
				at(2)
			}
		}()
	}

	// wait for the cut (or for the lead client to finish early because something failed)
	leadDone := make(chan struct{})
	go func() { cwg.Wait(); close(leadDone) }()
	select {
	case <-cutReached:
	case <-leadDone:
		run.Count("cut-not-reached", 1)
	case <-time.After(callBound * 4):
		run.Inconclusive("cut-never-reached")
	}

	// the action
	closeClients := func() {
		cmu.Lock()
		cs := append([]*gortsplib.Client(nil), clients...)
		ps := append([]*rig.Peer(nil), peers...)
		cmu.Unlock()
		for _, cl := range cs {
			cl := cl
			if !timed("Client.Close", c, func() { cl.Close() }) {
				continue
			}
			if t, ok := dialTrackers.LoadAndDelete(cl); ok {
				dt := t.(*rig.DialTracker)
				run.Count("client-connections-dialed", int64(dt.Dialed()))
				if left := dt.Unclosed(); len(left) > 0 {
					run.Violation("leak/socket/client-connection-never-closed", fmt.Sprintf("Client.Close returned but the client never closed %d of the %d connection(s) it dialed", len(left), dt.Dialed()), c)
				}
			}
		}
		for _, p := range ps {
			p.Close()
		}
	}
	var serverClosed, streamClosed bool
	switch c.Action {
	case "server-close":
		timed("Server.Close", c, func() { ts.S.Close() })
		serverClosed = true
	case "stream-close":
		timed("ServerStream.Close", c, func() { ts.Stream.Close() })
		streamClosed = true
	case "client-close", "peer-disconnect":
		closeClients()
	case "conn-kick":
		// the application closes the connections from its side (ServerConn.Close) while their
		// readers still hold undelivered frames
		for _, sc := range log.openConns() {
			sc := sc
			timed("ServerConn.Close", c, func() { sc.Close() })
		}
	case "both":
		var wg sync.WaitGroup
		wg.Add(2)
		go func() { defer wg.Done(); timed("Server.Close", c, func() { ts.S.Close() }) }()
		go func() { defer wg.Done(); closeClients() }()
		wg.Wait()
		serverClosed = true
	}
	// the other actors run to their end, then everything is closed (every Close must return)
	select {
	case <-leadDone:
	case <-time.After(callBound * 6):
		run.Inconclusive("clients-never-finished")
	}
	closeClients() // Close of an already closed client must be harmless... it is not called twice:
	close(stopW)
	wwg.Wait()
	if !streamClosed {
		timed("ServerStream.Close", c, func() { ts.Stream.Close() })
	}
	if !serverClosed {
		timed("Server.Close", c, func() { ts.S.Close() })
	}
	if aborted.Load() {
		return
	}
	log.verdict(c)
	run.Distinct(c.String())
	if run.WantSample() {
		run.Sample(c)
	}
}

func r2(seed int64, i, k int) *rand.Rand {
	return rand.New(rand.NewSource(seed*31 + int64(i)*1009 + int64(k)))
}

// rigNewClient builds a bare library client for publishing (rig.StartPublisher calls
// StartRecording itself, here the call has to run under the watchdog).
func rigNewClient(ts *rig.TestServer, o rig.ClientOpts) (*gortsplib.Client, string, error) {
	pc, err := rig.NewPlayClient(ts, o)
	if err != nil {
		return nil, "", err
	}
	pc.C.OnResponse = nil
	return pc.C, pc.URL.String(), nil
}

// census checks that nothing of the closed objects remains.
func census(batch []caseSpec, baseSockets int) {
	closeBlockers()
	if aborted.Load() {
		return
	}
	g := rig.WaitLibGoroutines(0, 8*time.Second)
	if len(g) > 0 {
		// de-duplicate by innermost function
		set := map[string]int{}
		for _, s := range g {
			set[s]++
		}
		var names []string
		for s := range set {
			names = append(names, s)
		}
		sort.Strings(names)
		for _, s := range names {
			fn := s
			if i := strings.Index(fn, " <- "); i > 0 {
				fn = fn[:i]
			}
			run.Violation("leak/goroutine/"+fn, fmt.Sprintf("%d goroutine(s) %s still alive 8 s after everything was closed", set[s], s), map[string]any{"batch": batch, "goroutines": names})
		}
		aborted.Store(true) // later censuses would be polluted
		return
	}
	n := rig.WaitSockets(baseSockets, 5*time.Second)
	if n > baseSockets {
		run.Violation("leak/socket", fmt.Sprintf("%d socket descriptor(s) still open after everything was closed (baseline %d)", n-baseSockets, baseSockets), map[string]any{"batch": batch})
		aborted.Store(true)
		return
	}
	run.Count("censuses-clean", 1)
}

func cases() []caseSpec {
	r := run.Rand("cases", 0)
	var out []caseSpec
	steps := map[string]int{"play": 8, "record": 4, "raw-noread": 4, "raw-half": 2}
	type tp struct {
		tr  string
		tls bool
	}
	trs := map[string][]tp{
		"play":       {{"tcp", false}, {"udp", false}, {"http", false}, {"ws", false}, {"mcast", false}, {"tcp", true}, {"udp", true}},
		"record":     {{"tcp", false}, {"udp", false}, {"tcp", true}},
		"raw-noread": {{"tcp", false}, {"tcp", true}},
		"raw-half":   {{"tcp", false}},
	}
	actions := map[string][]string{
		"play":       {"server-close", "stream-close", "client-close", "both", "conn-kick"},
		"record":     {"server-close", "client-close", "both", "conn-kick"},
		"raw-noread": {"server-close", "stream-close", "peer-disconnect", "both"},
		"raw-half":   {"server-close", "peer-disconnect"},
	}
	reps := run.Pick(3, 48)
	for _, sc := range []string{"play", "record", "raw-noread", "raw-half"} {
		for ti, t := range trs[sc] {
			for cut := -1; cut <= steps[sc]; cut++ {
				for ai, a := range actions[sc] {
					_, _ = ti, ai
					for k := 0; k < reps; k++ {
						out = append(out, caseSpec{Scenario: sc, Transport: t.tr, TLS: t.tls, Clients: 1 + r.Intn(3), Cut: cut, Action: a,
							YieldPm: []int{0, 50, 200}[r.Intn(3)], Seed: r.Int63()})
					}
				}
			}
		}
	}
	// multicast listener allocation that fails at the second / third media
	for k := 0; k < run.Pick(2, 40); k++ {
		for cut := 1; cut <= 2; cut++ {
			for _, a := range []string{"close", "retry"} {
				out = append(out, caseSpec{Scenario: "mcast-fault", Transport: "mcast", Clients: 1, Cut: cut, Action: a, Seed: r.Int63()})
			}
		}
	}
	// tunnelled players with one connection reset by the network
	for k := 0; k < run.Pick(1, 24); k++ {
		for _, tr := range []string{"http", "ws"} {
			for _, tlsOn := range []bool{false, true} {
				for _, a := range []string{"reset-to-server", "reset-to-client"} {
					for cut := 0; cut < 2; cut++ {
						if tr == "ws" && cut == 1 {
							continue
						}
						out = append(out, caseSpec{Scenario: "tunnel-reset", Transport: tr, TLS: tlsOn, Clients: 1, Cut: cut, Action: a, Seed: r.Int63()})
					}
				}
			}
		}
	}
	return out
}

func main() {
	run = vlib.Start("C13", "fault_enumeration")
	canary = rig.StartCanary()
	defer canary.Stop()
	y := rig.InstallYielder(run.Seed, 0, 400)
	defer y.Uninstall()

	var cs []caseSpec
	if run.Replay != "" {
		var w struct {
			Case  caseSpec   `json:"case"`
			Batch []caseSpec `json:"batch"`
		}
		if err := run.LoadReplay(&w); err != nil {
			run.Fatal("replay: %v", err)
		}
		if len(w.Batch) > 0 {
			cs = w.Batch
		} else {
			for i := 0; i < 10; i++ {
				cs = append(cs, w.Case)
			}
		}
	} else {
		cs = cases()
	}
	// warm up (TLS certificate etc.) before the socket baseline is taken
	rig.ServerCert()
	_ = net.ParseIP("127.0.0.1")
	time.Sleep(50 * time.Millisecond)
	baseSockets := rig.Sockets()
	const batchSize = 12
	orders := map[uint64]bool{}
	for i := 0; i < len(cs) && !aborted.Load(); i += batchSize {
		j := i + batchSize
		if j > len(cs) {
			j = len(cs)
		}
		batch := cs[i:j]
		y.Set(batch[0].YieldPm, 400)
		// no garbage collection during a batch and its census: an unreachable socket would be closed
		// by its finalizer, which hides exactly the leak the census looks for
		gcOld := debug.SetGCPercent(-1)
		var wg sync.WaitGroup
		for _, c := range batch {
			wg.Add(1)
			go func(c caseSpec) {
				defer wg.Done()
				runCase(c)
			}(c)
		}
		wg.Wait()
		orders[y.OrderHash()] = true
		census(batch, baseSockets)
		debug.SetGCPercent(gcOld)
		runtime.GC()
	}
	run.Extra("yield_points_hit", y.Hits())
	run.Extra("distinct_yield_orderings", len(orders))
	run.ReportRaces()
	run.Assume("bounded time = 12 s watchdog with 1 s read/write timeouts, canary-guarded")
	run.Finish(evals.Load(), "cases = scenario {play, record, raw peer that stops reading, raw peer with half a request} x transport x {plain, TLS} x cut after every protocol step (and before the first) x action {Server.Close, ServerStream.Close, Client.Close / peer disconnect, both at once}, 1..3 clients, concurrent stream writers, injected yields; census (library goroutines, sockets) after every batch of 12 cases; distinct_nontrivial = distinct (scenario, transport, clients, cut, action) cases completed")
}
