package main

import (
	"fmt"
	"sync"
	"time"

	"github.com/bluenviron/gortsplib/v5"
	"github.com/pion/rtp"

	"verif/lib/rig"
)

// Scenario "tunnel-reset": a client plays through the HTTP (two connections: GET = index 0,
// POST = index 1) or WebSocket tunnel, plain or over TLS; a TCP forwarder between the two resets
// one of the connections towards the server or towards the client while the other stays up.
// Then everything is closed: Client.Close, ServerStream.Close and Server.Close must return, the
// client must have closed every connection it dialed, and the census of the batch must find no
// goroutine and no socket left (a TLS connection that was reset cannot send its close_notify any
// more, so its Close returns an error - which must not keep the other channel open).
func runTunnelReset(c caseSpec) {
	if aborted.Load() {
		return
	}
	evals.Add(1)
	run.Count("cases:"+c.Scenario+"/"+c.Action, 1)
	ts, err := rig.StartServer(rig.ServerOpts{UDP: true, TLS: c.TLS, HandlerSet: "full", NoLog: true,
		ReadTimeout: ioTimeout, WriteTimeout: ioTimeout, IdleTimeout: 2 * time.Second})
	if err != nil {
		run.Fatal("tunnel-reset: server: %v", err)
	}
	px, err := rig.StartProxy(ts.Addr())
	if err != nil {
		ts.Close()
		run.Fatal("tunnel-reset: proxy: %v", err)
	}
	scheme := "rtsp"
	if c.TLS {
		scheme = "rtsps"
	}
	tun := gortsplib.TunnelHTTP
	if c.Transport == "ws" {
		tun = gortsplib.TunnelWebSocket
	}
	dials := &rig.DialTracker{}
	pc, err := rig.NewPlayClient(ts, rig.ClientOpts{Name: "tr", Proto: "tcp", Tunnel: tun, URLOverride: fmt.Sprintf("%s://%s/stream", scheme, px.Addr()),
		ReadTimeout: ioTimeout, WriteTimeout: ioTimeout, HeldEvery: 1000,
		Mutate: func(cl *gortsplib.Client) { cl.DialContext = dials.DialContext }})
	if err != nil {
		run.Fatal("tunnel-reset: client: %v", err)
	}
	stop := make(chan struct{})
	var wg sync.WaitGroup
	wg.Add(1)
	go func() {
		defer wg.Done()
		m := ts.Stream.Desc.Medias[0]
		for k := 0; ; k++ {
			select {
			case <-stop:
				return
			case <-time.After(3 * time.Millisecond):
			}
			_ = ts.Stream.WritePacketRTP(m, &rtp.Packet{Header: rtp.Header{Version: 2, PayloadType: m.Formats[0].PayloadType(), SequenceNumber: uint16(k), Timestamp: uint32(k) * 3000, SSRC: 9}, Payload: []byte("tunnel-reset")})
		}
	}()
	started := false
	if timed("Client.Start+Play", c, func() { err = pc.Start() }) && err == nil {
		started = true
		for k := 0; k < 300 && pc.Rd.Delivered() < 5; k++ {
			time.Sleep(5 * time.Millisecond)
		}
		// the fault
		idx := 0
		if c.Cut == 1 && px.Count() > 1 {
			idx = 1
		}
		if c.Action == "reset-to-server" {
			px.ResetUp(idx)
		} else {
			px.ResetDown(idx)
		}
		run.Count(fmt.Sprintf("tunnel-reset:%s:conn%d", c.Action, idx), 1)
		time.Sleep(time.Duration(100+c.Seed%300) * time.Millisecond)
	} else {
		run.Count("tunnel-reset:start-failed", 1)
	}
	close(stop)
	wg.Wait()
	if started {
		if timed("Client.Close", c, func() { pc.Close() }) {
			if left := dials.Unclosed(); len(left) > 0 {
				run.Violation("leak/socket/client-connection-never-closed", fmt.Sprintf("tunnel %s (tls=%v) after %s on connection %d: Client.Close returned but the client never closed %d of the %d connection(s) it dialed", c.Transport, c.TLS, c.Action, c.Cut, len(left), dials.Dialed()), c)
			}
		}
	}
	timed("ServerStream.Close", c, func() { ts.Stream.Close() })
	timed("Server.Close", c, func() { ts.S.Close() })
	px.Close()
	run.Distinct(c.String())
}
