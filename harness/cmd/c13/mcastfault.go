package main

import (
	"fmt"
	"net"
	"time"

	"github.com/bluenviron/gortsplib/v5"
	"github.com/bluenviron/gortsplib/v5/pkg/base"
	"github.com/bluenviron/gortsplib/v5/pkg/description"

	"verif/lib/rig"
)

// Scenario "mcast-fault": the allocation of the multicast listeners of a stream fails half way.
// The stream asks for specific multicast ports per media (ServerStream.MulticastParams); the RTP
// port of media c.Cut (1 or 2) is occupied by a foreign socket when the first multicast reader
// sets the stream up, so the listeners of the medias before it have been created and the SETUP is
// refused. Afterwards the port is freed and (action "retry") a second reader sets up and plays.
// Whatever happened, ServerStream.Close and Server.Close must return and leave nothing behind
// (the census of the batch looks at goroutines and sockets).
func runMcastFault(c caseSpec) {
	if aborted.Load() {
		return
	}
	evals.Add(1)
	run.Count("cases:"+c.Scenario+"/"+c.Action, 1)
	mip := rig.MulticastIP()
	if mip == "" {
		run.Inconclusive("no-multicast-interface")
		return
	}
	desc := rig.MakeDesc([]int{1, 1, 1})
	ts, err := rig.StartServer(rig.ServerOpts{UDP: true, Multicast: true, HandlerSet: "full", NoLog: true, NoStream: true,
		ReadTimeout: ioTimeout, WriteTimeout: ioTimeout, IdleTimeout: 2 * time.Second})
	if err != nil {
		run.Fatal("mcast-fault: server: %v", err)
	}
	params := map[*description.Media]gortsplib.StreamMediaMulticastParams{}
	var ports []int
	for i, m := range desc.Medias {
		p := rig.FreePortPair()
		ports = append(ports, p)
		params[m] = gortsplib.StreamMediaMulticastParams{IP: net.ParseIP(fmt.Sprintf("224.1.%d.%d", 10+int(c.Seed%200), 1+i)), RTPPort: p, RTCPPort: p + 1}
	}
	st := &gortsplib.ServerStream{Server: ts.S, Desc: desc, MulticastParams: params}
	if err := st.Initialize(); err != nil {
		ts.Close()
		run.Fatal("mcast-fault: stream: %v", err)
	}
	ts.Publish("/mf", st)
	// the fault: a foreign socket (no address reuse) holds the RTP port of media c.Cut
	blocker, err := net.ListenUDP("udp4", &net.UDPAddr{IP: net.IPv4zero, Port: ports[c.Cut]})
	if err != nil {
		st.Close()
		ts.Close()
		run.Inconclusive("mcast-fault/cannot-block-port")
		return
	}
	setup := func(p *rig.Peer, media int, sess string) (*base.Response, error) {
		h := base.Header{"Transport": base.HeaderValue{"RTP/AVP;multicast"}}
		if sess != "" {
			h["Session"] = base.HeaderValue{sess}
		}
		return p.Do(p.Request(base.Setup, fmt.Sprintf("%s/trackID=%d", ts.URL("/mf"), media), h, nil), callBound)
	}
	p1, err := rig.Dial(ts.Addr(), nil, "")
	if err == nil {
		res, err := setup(p1, 0, "")
		switch {
		case err != nil:
			run.Count("mcast-fault:first-setup-no-response", 1)
		case res.StatusCode == base.StatusOK:
			// the port could be shared after all: nothing failed, nothing to learn from this case
			run.Count("mcast-fault:fault-did-not-take", 1)
		default:
			run.Count("mcast-fault:first-setup-refused", 1)
		}
		p1.Close()
	}
	blocker.Close()
	if c.Action == "retry" {
		if p2, err := rig.Dial(ts.Addr(), nil, ""); err == nil {
			if res, err := setup(p2, 0, ""); err == nil && res.StatusCode == base.StatusOK {
				sess := ""
				if v, ok := res.Header["Session"]; ok && len(v) == 1 {
					sess = v[0]
					if i := indexByte(sess, ';'); i >= 0 {
						sess = sess[:i]
					}
				}
				if r2, err := p2.Do(p2.Request(base.Play, ts.URL("/mf"), base.Header{"Session": base.HeaderValue{sess}}, nil), callBound); err == nil && r2.StatusCode == base.StatusOK {
					run.Count("mcast-fault:retry-played", 1)
				}
			}
			p2.Close()
		}
	}
	timed("ServerStream.Close", c, func() { st.Close() })
	timed("Server.Close", c, func() { ts.S.Close() })
	run.Distinct(c.String())
}

func indexByte(s string, b byte) int {
	for i := 0; i < len(s); i++ {
		if s[i] == b {
			return i
		}
	}
	return -1
}
