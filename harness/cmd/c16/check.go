package main

import (
	"fmt"
	"sort"
	"strings"
	"time"

	"github.com/anishathalye/porcupine"
)

// One recorded client operation. Stamps are nanoseconds of one monotonic clock (now()); the
// interval [S,E] encloses the real call. For the processor layer a "deq" is the removal of an
// item from the queue by the library's consumer goroutine: it is not observable directly, so its
// interval is [return of the previous callback (or the call of Start), start of this callback],
// which is guaranteed to contain the real Pull; X is the stamp of the end of the callback.
type op struct {
	C  int    `json:"c"`  // client (goroutine) index: producers 0..P-1, consumer P, owner P+1
	K  string `json:"k"`  // push | deq | pullfalse | close
	ID int    `json:"id"` // item id (producer*10000+counter), -1 if none
	OK bool   `json:"ok"` // push: accepted
	S  int64  `json:"s"`
	E  int64  `json:"e"`
	X  int64  `json:"x,omitempty"`
}

// params fully describes a concurrent workload (everything but the schedule).
type params struct {
	Layer     string `json:"layer"`    // ring | proc
	Scenario  string `json:"scenario"` // drain | close | error | nostart | parked
	Cap       int    `json:"cap"`
	Producers int    `json:"producers"`
	Items     []int  `json:"items"`      // pushes attempted per producer
	StartMode int    `json:"start_mode"` // proc: 0 Start before pushes, 1 concurrently, 2 after all pushes
	OwnerSpin int    `json:"owner_spin"` // owner delay (Gosched spins) before Start (mode 1) / Close (close scenario)
	OwnerUs   int    `json:"owner_us"`   // extra owner delay in microseconds
	ErrAt     int    `json:"err_at"`     // error scenario: index of the execution that fails
	SlowPct   int    `json:"slow_pct"`   // share of callbacks / pulls that dawdle
	PushGap   int    `json:"push_gap"`   // producers: share of pushes followed by a Gosched
	YieldPct  int    `json:"yield_pct"`  // probability of a perturbation at a yield point
	YieldSeed uint64 `json:"yield_seed"` // seed of the perturbation decisions
	Long      bool   `json:"long"`       // long history: direct invariants only
	Rounds    int    `json:"rounds"`     // parked scenario: number of parked->push rounds
	ParkedEnd string `json:"parked_end"` // parked scenario: "close" after the rounds
	PostErr   int    `json:"post_error"` // error scenario: pushes issued after OnError was seen
	LateStart bool   `json:"late_start,omitempty"` // nostart scenario: Start is called after Close has returned
	ErrClose  bool   `json:"err_close,omitempty"` // error scenario: Close is issued while the failing callback is executing
	Index     int    `json:"index"`      // index of the history in the (seed, tier) case list
	Attempt   int    `json:"attempt"`    // 0 = first run
	Note      string `json:"note,omitempty"`
}

// history is what one run recorded.
type history struct {
	P          params  `json:"params"`
	Ops        []op    `json:"ops"`
	StartCall  int64   `json:"start_call"` // -1: Start never called
	CloseCall  int64   `json:"close_call"` // -1: no Close
	CloseRet   int64   `json:"close_ret"`
	OnErr      []int64 `json:"on_error,omitempty"` // stamps of OnError invocations
	OnErrBad   string  `json:"on_error_bad,omitempty"`
	Overlap    int     `json:"overlap,omitempty"`    // callbacks found running concurrently
	Late       int     `json:"late,omitempty"`       // callbacks that saw "Close has returned"
	Drained    bool    `json:"drained"`              // the owner waited for quiescence before Close
	Parked     int     `json:"parked,omitempty"`     // times the consumer reported "about to wait"
	Woken      int     `json:"woken,omitempty"`      // parked consumer then served a push / close
	Interleave uint64  `json:"interleave,omitempty"` // hash of the sequence of yield-point names
	YieldHits  int     `json:"yield_hits,omitempty"`
	Canary     int     `json:"-"`
	Panic      string  `json:"panic,omitempty"` // "site|value" of a panic inside a library call
}

// ---------------------------------------------------------------------------------------------
// (2) direct invariants

// checkDirect returns ("", "") if all direct invariants hold, else a violation key + explanation.
func checkDirect(h *history) (string, string) {
	if h.Panic != "" {
		site, val, _ := strings.Cut(h.Panic, "|")
		return "panic/" + site, "a library call panics: " + val
	}
	c := h.P.Cap
	var pushes, deqs []op
	pushOf := map[int]op{}
	for _, o := range h.Ops {
		switch o.K {
		case "push":
			pushes = append(pushes, o)
			if _, dup := pushOf[o.ID]; dup {
				return "", "" // harness never pushes an id twice
			}
			pushOf[o.ID] = o
		case "deq":
			deqs = append(deqs, o)
		case "pullfalse":
			if h.CloseCall < 0 || o.E < h.CloseCall {
				return "pull/false-before-close", fmt.Sprintf("Pull returned false at %d although Close was not called before (close call %d)", o.E, h.CloseCall)
			}
		}
	}
	sort.SliceStable(deqs, func(i, j int) bool { return deqs[i].E < deqs[j].E })

	if h.Overlap > 0 {
		return "exec/concurrent-callbacks", fmt.Sprintf("%d callbacks started while another one was running", h.Overlap)
	}
	seen := map[int]bool{}
	for _, d := range deqs {
		if seen[d.ID] {
			return "exec/twice", fmt.Sprintf("item %d executed more than once", d.ID)
		}
		seen[d.ID] = true
		p, ok := pushOf[d.ID]
		if !ok || !p.OK {
			return "exec/refused-or-unknown-item", fmt.Sprintf("item %d executed although its Push was refused / never issued", d.ID)
		}
		if d.E < p.S {
			return "exec/before-push", fmt.Sprintf("item %d executed (%d) before its Push was called (%d)", d.ID, d.E, p.S)
		}
	}
	if h.Late > 0 {
		return "exec/after-close-returned", fmt.Sprintf("%d callbacks observed running after Close had returned", h.Late)
	}
	if h.CloseRet >= 0 && h.P.Layer == "proc" {
		for _, d := range deqs {
			if d.X > h.CloseRet || d.X == 0 {
				return "exec/after-close-returned", fmt.Sprintf("callback of item %d ended at %d, Close returned at %d", d.ID, d.X, h.CloseRet)
			}
		}
	}

	// FIFO with respect to real-time ordered pushes: x executed before y although push(y) had
	// returned before push(x) was called.
	var maxCall int64 = -1
	var maxID int
	for _, d := range deqs {
		p := pushOf[d.ID]
		if p.E < maxCall {
			q := pushOf[maxID]
			if h.CloseCall >= 0 && p.E >= h.CloseCall {
				return "fifo/post-close-push-overtakes", fmt.Sprintf(
					"items pushed after Close began are executed against acceptance order: item %d (push [%d,%d]) executed before item %d (push [%d,%d]); Close called at %d",
					maxID, q.S, q.E, d.ID, p.S, p.E, h.CloseCall)
			}
			return "fifo/executed-out-of-acceptance-order", fmt.Sprintf(
				"item %d (push [%d,%d]) executed before item %d (push [%d,%d])", maxID, q.S, q.E, d.ID, p.S, p.E)
		}
		if p.S > maxCall {
			maxCall, maxID = p.S, d.ID
		}
	}

	// no silent loss: an accepted item x is never executed although an item y accepted strictly
	// later was, and y was accepted before Close began (so Close cannot have discarded x only).
	errored := len(h.OnErr) > 0
	var minRet int64 = -1
	var minID int
	for _, p := range pushes {
		if p.OK && !seen[p.ID] && (minRet < 0 || p.E < minRet) {
			minRet, minID = p.E, p.ID
		}
	}
	if minRet >= 0 {
		for _, d := range deqs {
			p := pushOf[d.ID]
			if minRet < p.S && (h.CloseCall < 0 || p.E < h.CloseCall) {
				return "loss/accepted-item-skipped", fmt.Sprintf(
					"item %d was accepted (push returned %d) and never executed, item %d pushed later (%d) was executed; no Close in between",
					minID, minRet, d.ID, p.S)
			}
		}
	}
	if h.Drained && !errored {
		for _, p := range pushes {
			if p.OK && !seen[p.ID] && (h.CloseCall < 0 || p.E < h.CloseCall) {
				return "loss/drain-incomplete", fmt.Sprintf("item %d accepted, never executed although the queue was drained before Close", p.ID)
			}
		}
	}

	// capacity: from the stamps compute, for every instant t, an upper bound U(t) and a lower
	// bound L(t) of the number of items held. A refusal needs U(t) >= c for some t inside the
	// Push interval; an acceptance needs L(t) < c for some t. Pushes overlapping or following
	// Close are exempt (Close empties the queue; a later Push may be accepted and dropped).
	if len(pushes) <= 4000 {
		var accS, accE, dqS, dqE []int64
		for _, p := range pushes {
			if p.OK {
				accS = append(accS, p.S)
				accE = append(accE, p.E)
			}
		}
		for _, d := range deqs {
			dqS = append(dqS, d.S)
			dqE = append(dqE, d.E)
		}
		for _, s := range [][]int64{accS, accE, dqS, dqE} {
			sort.Slice(s, func(i, j int) bool { return s[i] < s[j] })
		}
		le := func(s []int64, t int64) int { return sort.Search(len(s), func(i int) bool { return s[i] > t }) }  // # <= t
		lt := func(s []int64, t int64) int { return sort.Search(len(s), func(i int) bool { return s[i] >= t }) } // # < t
		var stamps []int64
		for _, o := range h.Ops {
			stamps = append(stamps, o.S, o.E)
		}
		sort.Slice(stamps, func(i, j int) bool { return stamps[i] < stamps[j] })
		for _, p := range pushes {
			if h.CloseCall >= 0 && p.E >= h.CloseCall {
				continue
			}
			lo := sort.Search(len(stamps), func(i int) bool { return stamps[i] >= p.S })
			maxU, minL := -1<<30, 1<<30
			for i := lo; i < len(stamps) && stamps[i] <= p.E; i++ {
				t := stamps[i]
				u := le(accS, t) - lt(dqE, t) // accepted pushes possibly linearised by t - dequeues surely done before t
				l := lt(accE, t) - le(dqS, t) // accepted pushes surely done before t - dequeues possibly done by t
				if u > maxU {
					maxU = u
				}
				if l < minL {
					minL = l
				}
			}
			if !p.OK && maxU < c {
				return "push/refused-below-capacity", fmt.Sprintf(
					"Push of item %d [%d,%d] was refused although at most %d < %d items can have been held at any instant of the call", p.ID, p.S, p.E, maxU, c)
			}
			if p.OK && minL >= c {
				return "push/accepted-beyond-capacity", fmt.Sprintf(
					"Push of item %d [%d,%d] was accepted although at least %d >= %d items were held during the whole call", p.ID, p.S, p.E, minL, c)
			}
		}
	}

	// (4) error path
	if h.P.Scenario == "error" || errored {
		if h.OnErrBad != "" {
			return "error/onerror-arguments", h.OnErrBad
		}
		failed := false
		for i, d := range deqs {
			if i == h.P.ErrAt && h.P.Scenario == "error" {
				failed = true
				if len(h.OnErr) != 1 {
					return "error/onerror-count", fmt.Sprintf("callback %d (item %d) returned an error: OnError invoked %d times, want 1", i, d.ID, len(h.OnErr))
				}
				if h.OnErr[0] < d.X {
					return "error/onerror-before-failure", "OnError invoked before the failing callback returned"
				}
				if h.CloseRet >= 0 && h.OnErr[0] > h.CloseRet {
					return "error/onerror-after-close-returned", "OnError invoked after Close had returned"
				}
			} else if failed {
				return "error/executed-after-error", fmt.Sprintf("item %d executed after a callback had returned an error", d.ID)
			}
		}
		if !failed && len(h.OnErr) != 0 {
			return "error/onerror-count", fmt.Sprintf("no callback failed, OnError invoked %d times", len(h.OnErr))
		}
	}
	return "", ""
}

// ---------------------------------------------------------------------------------------------
// (1) linearizability against a bounded FIFO

type qIn struct {
	kind byte // 'p' push, 'd' dequeue, 'f' pull returned false, 'c' close
	id   byte // dense index of the item inside the history (1-based)
}

type qState struct {
	q      string // held ids, head first
	closed bool
}

// model: bounded FIFO of capacity c.
//
//	open:   Push accepted iff len < c; dequeue removes the head; Pull never returns false
//	Close:  empties the queue (documented: Close discards pending data)
//	closed: Push may be refused or accepted; an accepted one is held and may be dropped or still be
//	        dequeued (once). The held items form a set here: that the ones that are executed are
//	        executed in acceptance order is checked by the direct invariant on real-time ordered
//	        pushes (keeping the order in the state makes the search explode on the many
//	        concurrent post-close pushes). Pull may return false.
func fifoModel(c int) porcupine.Model {
	return porcupine.Model{
		Init: func() any { return qState{} },
		Step: func(st, in, out any) (bool, any) {
			s := st.(qState)
			i := in.(qIn)
			ok := out.(bool)
			switch i.kind {
			case 'p':
				if !s.closed {
					if ok != (len(s.q) < c) {
						return false, s
					}
				}
				if ok && !s.closed {
					return true, qState{s.q + string([]byte{i.id}), false}
				}
				if ok { // closed: a set (kept sorted), see above
					k := 0
					for k < len(s.q) && s.q[k] < i.id {
						k++
					}
					return true, qState{s.q[:k] + string([]byte{i.id}) + s.q[k:], true}
				}
				return true, s
			case 'd':
				if !s.closed {
					if len(s.q) == 0 || s.q[0] != i.id {
						return false, s
					}
					return true, qState{s.q[1:], false}
				}
				k := strings.IndexByte(s.q, i.id)
				if k < 0 {
					return false, s
				}
				return true, qState{s.q[:k] + s.q[k+1:], true}
			case 'f':
				return s.closed, s
			case 'c':
				return true, qState{"", true}
			}
			return false, s
		},
		DescribeOperation: func(in, out any) string {
			i := in.(qIn)
			return fmt.Sprintf("%c(%d)->%v", i.kind, i.id, out)
		},
	}
}

// checkLinearizable returns Ok / Illegal / Unknown for a short history.
func checkLinearizable(h *history, timeout time.Duration) porcupine.CheckResult {
	dense := map[int]byte{}
	idOf := func(id int) byte {
		if v, ok := dense[id]; ok {
			return v
		}
		v := byte(len(dense) + 1)
		dense[id] = v
		return v
	}
	var ops []porcupine.Operation
	for _, o := range h.Ops {
		var in qIn
		out := true
		switch o.K {
		case "push":
			in, out = qIn{'p', idOf(o.ID)}, o.OK
		case "deq":
			in = qIn{'d', idOf(o.ID)}
		case "pullfalse":
			in = qIn{'f', 0}
		case "close":
			in = qIn{'c', 0}
		default:
			continue
		}
		ops = append(ops, porcupine.Operation{ClientId: o.C, Input: in, Output: out, Call: o.S, Return: o.E})
	}
	return porcupine.CheckOperationsTimeout(fifoModel(h.P.Cap), ops, timeout)
}

// opCount is the number of operations that take part in the linearizability check.
func opCount(h *history) int { return len(h.Ops) }
