package main

import (
	"regexp"
	"sort"
	"strings"
)

type raceReport struct {
	text string
	lib  bool   // one of the two access stacks contains a gortsplib frame
	pair string // sorted pair of the innermost gortsplib functions of the two access stacks ("-" = none)
}

var (
	reAccess = regexp.MustCompile(`^(Previous )?([Aa]tomic )?([Rr]ead|[Ww]rite) at 0x[0-9a-f]+ by `)
	reLineNo = regexp.MustCompile(`\(\)$`)
)

const libPrefix = "github.com/bluenviron/gortsplib/v5"

// parseRaceReports splits the text of a race detector log into reports and classifies them.
func parseRaceReports(log string) []raceReport {
	var out []raceReport
	for _, blk := range strings.Split(log, "==================") {
		if !strings.Contains(blk, "WARNING: DATA RACE") {
			continue
		}
		var inner []string
		for _, sec := range strings.Split(blk, "\n\n") {
			lines := strings.Split(strings.Trim(sec, "\n"), "\n")
			// the header of a section may follow the WARNING line
			start := -1
			for i, ln := range lines {
				if reAccess.MatchString(ln) {
					start = i
					break
				}
			}
			if start < 0 {
				continue
			}
			fn := "-"
			for _, ln := range lines[start+1:] {
				if !strings.HasPrefix(ln, "  ") || strings.HasPrefix(ln, "      ") {
					continue
				}
				f := strings.TrimSpace(ln)
				if strings.HasPrefix(f, libPrefix) {
					f = reLineNo.ReplaceAllString(f, "")
					f = strings.TrimPrefix(f, libPrefix+"/")
					f = strings.TrimPrefix(f, libPrefix+".")
					fn = f
					break
				}
			}
			inner = append(inner, fn)
		}
		for len(inner) < 2 {
			inner = append(inner, "-")
		}
		inner = inner[:2]
		sort.Strings(inner)
		out = append(out, raceReport{
			text: strings.TrimSpace(blk),
			lib:  inner[0] != "-" || inner[1] != "-",
			pair: inner[0] + "+" + inner[1],
		})
	}
	return out
}
