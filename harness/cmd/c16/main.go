// C16: Outbound write queue: FIFO, bounded, loss only when signalled.
//
// Targets: pkg/ringbuffer.RingBuffer (directly) and internal/asyncprocessor.Processor (through
// pkg/verifhooks), both under the race detector with schedule perturbation at the library's yield
// points. Monitors:
//
//	(0) sequential, exhaustive: every operation word up to length 8, capacities 1,2,4, against the model
//	(1) linearizability of short recorded concurrent histories against a bounded FIFO (porcupine)
//	(2) direct invariants computed from the stamps (at-most-once, FIFO, no loss, capacity, no
//	    callback after Close returned, no concurrent callbacks)
//	(3) lost wake-up: a consumer known to be waiting must serve one push / return on close
//	(4) error path: OnError exactly once, nothing executed afterwards, Close returns
//	(5) the race detector: every report with a gortsplib frame is a violation
//
// Process model: the parent runs (0), then starts a few child processes ("lanes") of itself; a
// lane runs its share of the concurrent histories one after the other (the yield hook is
// process-global, so one history at a time per process keeps its record unambiguous). Lanes write
// their results to a file; the parent merges them and parses the race detector's log files.
package main

import (
	"bytes"
	"encoding/json"
	"flag"
	"fmt"
	"os"
	"os/exec"
	"path/filepath"
	"runtime"
	"sort"
	"strings"
	"sync"
	"sync/atomic"
	"syscall"
	"time"

	"github.com/anishathalye/porcupine"
	"github.com/bluenviron/gortsplib/v5/pkg/verifhooks"

	"verif/lib/vlib"
)

var (
	run      *vlib.Run
	seqEvals atomic.Int64

	flagLane    = flag.Int("lane", -1, "internal: lane index (child process)")
	flagLanes   = flag.Int("lanes", 0, "internal: number of lanes")
	flagLaneOut = flag.String("laneout", "", "internal: result file of the lane")
	flagN       = flag.Int("histories", 0, "override the number of concurrent histories")
)

const (
	watchdog      = 10 * time.Second
	lateLimit     = 250 * time.Millisecond
	porcTimeout   = 10 * time.Second
	maxShortOps   = 90
	stuckRetries  = 12
	failBudget    = 3
	replayReruns  = 400
	replayMaxWall = 90 * time.Second
)

type laneViolation struct {
	Key     string `json:"key"`
	What    string `json:"what"`
	Witness any    `json:"witness"`
	Count   int    `json:"count"`
}

type laneResult struct {
	Lane         int              `json:"lane"`
	Counters     map[string]int64 `json:"counters"`
	Maxima       map[string]int64 `json:"maxima"`
	Distinct     []uint64         `json:"distinct"`
	Interleave   []uint64         `json:"interleave"`
	Violations   []laneViolation  `json:"violations"`
	Inconclusive []string         `json:"inconclusive"`
	Samples      []any            `json:"samples"`
	Evals        int64            `json:"evals"`
}

// collector gathers the verdicts of one process (lane or replay).
type collector struct {
	mu         sync.Mutex
	res        laneResult
	vio        map[string]*laneViolation
	distinct   map[uint64]struct{}
	interleave map[uint64]struct{}
}

func newCollector(lane int) *collector {
	return &collector{
		res: laneResult{Lane: lane, Counters: map[string]int64{}, Maxima: map[string]int64{}},
		vio: map[string]*laneViolation{}, distinct: map[uint64]struct{}{}, interleave: map[uint64]struct{}{},
	}
}

func (c *collector) count(k string, n int64) { c.mu.Lock(); c.res.Counters[k] += n; c.mu.Unlock() }
func (c *collector) max(k string, v int64) {
	c.mu.Lock()
	if v > c.res.Maxima[k] {
		c.res.Maxima[k] = v
	}
	c.mu.Unlock()
}

func (c *collector) violation(key, what string, w any) {
	c.mu.Lock()
	defer c.mu.Unlock()
	if v, ok := c.vio[key]; ok {
		v.Count++
		return
	}
	c.vio[key] = &laneViolation{Key: key, What: what, Witness: w, Count: 1}
	fmt.Fprintf(os.Stderr, "lane %d: violation key=%s: %s\n", c.res.Lane, key, what)
}

func (c *collector) inconclusive(why string) {
	c.mu.Lock()
	c.res.Inconclusive = append(c.res.Inconclusive, why)
	c.mu.Unlock()
}

func (c *collector) finish() *laneResult {
	c.mu.Lock()
	defer c.mu.Unlock()
	keys := make([]string, 0, len(c.vio))
	for k := range c.vio {
		keys = append(keys, k)
	}
	sort.Strings(keys)
	for _, k := range keys {
		c.res.Violations = append(c.res.Violations, *c.vio[k])
	}
	for h := range c.distinct {
		c.res.Distinct = append(c.res.Distinct, h)
	}
	for h := range c.interleave {
		c.res.Interleave = append(c.res.Interleave, h)
	}
	return &c.res
}

type concWitness struct {
	Kind    string   `json:"kind"` // "concurrent"
	Key     string   `json:"key"`
	History *history `json:"history"`
	Stuck   string   `json:"stuck,omitempty"`
}

func fnv64(s string) uint64 {
	var h uint64 = 14695981039346656037
	for i := 0; i < len(s); i++ {
		h ^= uint64(s[i])
		h *= 1099511628211
	}
	return h
}

// judge applies monitors (1), (2), (4) to a completed history; returns the violation key or "".
func judge(c *collector, h *history, countIt bool) string {
	key, what := checkDirect(h)
	if key != "" {
		c.violation(key, fmt.Sprintf("%s layer, %s scenario, capacity %d, %d producers: %s", h.P.Layer, h.P.Scenario, h.P.Cap, h.P.Producers, what),
			concWitness{Kind: "concurrent", Key: key, History: h})
		return key
	}
	if h.P.Long || opCount(h) > maxShortOps {
		if countIt {
			c.count("histories:long-direct-invariants-only", 1)
		}
		return ""
	}
	switch checkLinearizable(h, porcTimeout) {
	case porcupine.Ok:
		if countIt {
			c.count("linearizability:ok", 1)
		}
	case porcupine.Unknown:
		c.count("linearizability:unknown", 1)
		c.inconclusive("linearizability-check-timeout")
	default:
		key = "linearizability/" + h.P.Layer + "/" + h.P.Scenario
		c.violation(key, fmt.Sprintf("%s layer, %s scenario, capacity %d, %d producers: the recorded history of %d operations is not linearizable to a bounded FIFO of that capacity",
			h.P.Layer, h.P.Scenario, h.P.Cap, h.P.Producers, opCount(h)), concWitness{Kind: "concurrent", Key: key, History: h})
		return key
	}
	return ""
}

// oneHistory runs the workload for p (with the stuck-run protocol) and judges it.
func oneHistory(c *collector, p params) string {
	h, stuck, late := runOnce(p, watchdog)
	if h != nil && h.Panic != "" {
		c.count("panicking-runs", 1)
		return judge(c, h, false)
	}
	if stuck != "" {
		c.count("stuck-runs", 1)
		if late > lateLimit {
			c.inconclusive("watchdog-while-machine-stalled")
			return ""
		}
		// a stuck run on a healthy machine is a violation only if it reproduces with the same parameters
		for a := 1; a <= stuckRetries; a++ {
			p2 := p
			p2.Attempt = a
			h2, stuck2, late2 := runOnce(p2, watchdog)
			if stuck2 != "" && late2 <= lateLimit {
				key := "lost-wakeup/" + p.Layer + "/" + p.Scenario
				if strings.HasPrefix(stuck2, "hang:") {
					key = "hang/" + p.Layer + "/" + p.Scenario
				}
				c.violation(key, fmt.Sprintf("%s layer, %s scenario, capacity %d, %d producers: %s (reproduced in attempt %d with the same parameters: %s)",
					p.Layer, p.Scenario, p.Cap, p.Producers, stuck, a+1, stuck2), concWitness{Kind: "concurrent", Key: key, History: h2, Stuck: stuck2})
				return key
			}
			if stuck2 == "" {
				if k := judge(c, h2, false); k != "" {
					return k
				}
			}
		}
		c.inconclusive("stuck-run-not-reproduced")
		return ""
	}
	key := judge(c, h, true)

	// evidence
	c.count("histories:"+p.Layer+"/"+p.Scenario, 1)
	c.count(fmt.Sprintf("capacity:%d", p.Cap), 1)
	c.count(fmt.Sprintf("producers:%d", p.Producers), 1)
	c.count(fmt.Sprintf("yield-pct:%d", p.YieldPct), 1)
	c.count("operations", int64(len(h.Ops)))
	c.max("operations-per-history", int64(len(h.Ops)))
	c.count("yield-points-hit", int64(h.YieldHits))
	c.count("consumer-parked", int64(h.Parked))
	if p.Scenario == "parked" {
		c.count("parked->woken", int64(h.Woken))
	}
	var acc, ref, postAcc, postRef, exec, postExec int
	pushAt := map[int]op{}
	for _, o := range h.Ops {
		switch o.K {
		case "push":
			pushAt[o.ID] = o
			post := h.CloseCall >= 0 && o.E >= h.CloseCall
			switch {
			case o.OK && post:
				postAcc++
			case o.OK:
				acc++
			case post:
				postRef++
			default:
				ref++
			}
		}
	}
	for _, o := range h.Ops {
		if o.K == "deq" {
			exec++
			if h.CloseCall >= 0 && pushAt[o.ID].E >= h.CloseCall {
				postExec++
			}
		}
	}
	c.count("push:accepted", int64(acc))
	c.count("push:refused(full)", int64(ref))
	c.count("push:during/after-close:accepted", int64(postAcc))
	c.count("push:during/after-close:refused", int64(postRef))
	c.count("executed", int64(exec))
	c.count("executed:pushed-during/after-close", int64(postExec))
	if len(h.OnErr) > 0 {
		c.count("OnError-invocations", int64(len(h.OnErr)))
	}
	if h.CloseCall >= 0 && p.Scenario == "close" {
		// where Close fell relative to the pushes
		total := 0
		before := 0
		for _, o := range h.Ops {
			if o.K == "push" {
				total++
				if o.E < h.CloseCall {
					before++
				}
			}
		}
		b := "mid"
		switch {
		case before == 0:
			b = "before-all-pushes"
		case before == total:
			b = "after-all-pushes"
		case before*4 < total:
			b = "first-quarter"
		case before*4 >= total*3:
			b = "last-quarter"
		}
		c.count("close-position:"+b, 1)
	}
	// a distinct non-trivial case: same parameters class, another interleaving / outcome
	var sb strings.Builder
	fmt.Fprintf(&sb, "%s|%s|%d|%d|%d|%x|", p.Layer, p.Scenario, p.Cap, p.Producers, p.StartMode, h.Interleave)
	for _, o := range h.Ops {
		if o.K == "push" && !o.OK {
			fmt.Fprintf(&sb, "r%d,", o.ID)
		}
	}
	c.mu.Lock()
	if p.Producers > 1 || ref+postRef > 0 || p.Scenario != "drain" {
		c.distinct[fnv64(sb.String())] = struct{}{}
	}
	c.interleave[h.Interleave] = struct{}{}
	if len(c.res.Samples) < 2 && !p.Long && len(h.Ops) <= 24 && len(h.Ops) >= 8 {
		c.res.Samples = append(c.res.Samples, map[string]any{"params": h.P, "ops": h.Ops, "close_call": h.CloseCall, "close_ret": h.CloseRet})
	}
	c.res.Evals++
	c.mu.Unlock()
	return key
}

// laneMain runs the histories i with i % lanes == lane.
func laneMain(lane, lanes, n int) *laneResult {
	verifhooks.SetYieldHook(yieldHook)
	c := newCollector(lane)
	for i := lane; i < n; i += lanes {
		p := genParams(run.Rand("history", i), i)
		oneHistory(c, p)
		// every stuck / panicking run costs a watchdog period: once a lane has reported a few of
		// them it stops (the verdict is a violation anyway; the evidence shows the shortfall)
		if c.res.Counters["stuck-runs"]+c.res.Counters["panicking-runs"] >= failBudget {
			c.count("lane-stopped-early-after-repeated-stuck/panicking-runs", 1)
			break
		}
	}
	verifhooks.SetYieldHook(nil)
	return c.finish()
}

func merge(res *laneResult, inter map[uint64]struct{}) int64 {
	for k, v := range res.Counters {
		run.Count(k, v)
	}
	for k, v := range res.Maxima {
		run.Max(k, v)
	}
	for _, h := range res.Distinct {
		run.DistinctHash(h)
	}
	for _, h := range res.Interleave {
		inter[h] = struct{}{}
	}
	for _, v := range res.Violations {
		for i := 0; i < v.Count; i++ {
			run.Violation(v.Key, v.What, v.Witness)
		}
	}
	for _, w := range res.Inconclusive {
		run.Inconclusive(w)
	}
	for _, s := range res.Samples {
		run.Sample(s)
	}
	return res.Evals
}

// raceLogs parses the race detector's log files (<prefix>.<pid>) and reports every data race with
// a gortsplib frame in one of its two access stacks as a violation keyed by the sorted pair of the
// innermost gortsplib functions. A race entirely inside the harness is a harness failure.
func raceLogs(prefix string) {
	files, _ := filepath.Glob(prefix + ".*")
	total, own := 0, 0
	ownText := ""
	for _, f := range files {
		b, err := os.ReadFile(f)
		if err != nil {
			continue
		}
		for _, rep := range parseRaceReports(string(b)) {
			total++
			if !rep.lib {
				own++
				if ownText == "" {
					ownText = rep.text
				}
				continue
			}
			run.Violation("race/"+rep.pair, "data race reported by the race detector between "+strings.ReplaceAll(rep.pair, "+", " and "),
				map[string]any{"kind": "race", "report": rep.text, "log": f})
		}
	}
	run.Count("race-reports", int64(total))
	if own > 0 {
		run.Count("race-reports-inside-harness-only", int64(own))
		fmt.Println(ownText)
		if run.Violations() == 0 {
			run.Fatal("the race detector reported %d data races inside the harness itself (no gortsplib frame in either access stack)", own)
		}
	}
}

func main() {
	run = vlib.Start("C16", "exploration")

	if *flagLane >= 0 { // child process
		res := laneMain(*flagLane, *flagLanes, *flagN)
		b, err := json.Marshal(res)
		if err != nil {
			run.Fatal("lane %d: cannot encode result: %v", *flagLane, err)
		}
		if err := os.WriteFile(*flagLaneOut, b, 0o644); err != nil {
			run.Fatal("lane %d: %v", *flagLane, err)
		}
		os.Exit(0)
	}

	racePrefix := os.Getenv("VERIF_RACELOG")
	ownRaceDir := ""
	if racePrefix == "" {
		d, err := os.MkdirTemp("", "c16race")
		if err != nil {
			run.Fatal("%v", err)
		}
		ownRaceDir = d
		racePrefix = filepath.Join(d, "race")
	}

	if run.Replay != "" {
		replay(racePrefix)
		return
	}

	// (0) sequential exhaustive part
	t0 := time.Now()
	seqExhaustive()
	run.Exhaustive(true)
	fmt.Fprintf(os.Stderr, "sequential part: %.1fs\n", time.Since(t0).Seconds())

	// (1)-(4) concurrent histories in lanes
	n := run.Pick(6000, 100000)
	if *flagN > 0 {
		n = *flagN
	}
	// a lane sleeps most of the time (injected yields): more lanes than cores/2 only pays off for
	// the long tier
	lanes := runtime.NumCPU() / 2
	if !run.Quick() {
		lanes = runtime.NumCPU()
	}
	if lanes < 2 {
		lanes = 2
	}
	if lanes > 16 {
		lanes = 16
	}
	tmp, err := os.MkdirTemp("", "c16lanes")
	if err != nil {
		run.Fatal("%v", err)
	}
	type child struct {
		cmd  *exec.Cmd
		out  string
		errb *bytes.Buffer
	}
	var kids []child
	for l := 0; l < lanes; l++ {
		out := filepath.Join(tmp, fmt.Sprintf("lane%d.json", l))
		cmd := exec.Command(os.Args[0], "-tier", run.Tier, "-seed", fmt.Sprint(run.Seed), "-root", run.Root,
			"-lane", fmt.Sprint(l), "-lanes", fmt.Sprint(lanes), "-laneout", out, "-histories", fmt.Sprint(n))
		errb := &bytes.Buffer{}
		cmd.Stdout = os.Stdout
		cmd.Stderr = errb
		cmd.SysProcAttr = &syscall.SysProcAttr{Pdeathsig: syscall.SIGKILL}
		cmd.Env = append(os.Environ(), "GORACE=halt_on_error=0 history_size=3 log_path="+racePrefix)
		if err := cmd.Start(); err != nil {
			run.Fatal("cannot start lane %d: %v", l, err)
		}
		kids = append(kids, child{cmd, out, errb})
	}
	inter := map[uint64]struct{}{}
	evals := seqEvals.Load()
	for l, k := range kids {
		err := k.cmd.Wait()
		b, rerr := os.ReadFile(k.out)
		if rerr != nil {
			// the lane died: a panic / fatal error on a goroutine the harness cannot guard (the
			// processor's own consumer goroutine)
			site, msg := deathSite(k.errb.String())
			fmt.Printf("lane %d ended without a result: %v\n%s\n", l, err, k.errb.String())
			if strings.HasPrefix(site, "lib:") {
				run.Violation("process-death/"+strings.TrimPrefix(site, "lib:"), "the process dies inside the library: "+msg,
					map[string]any{"kind": "race", "report": tail(k.errb.String(), 6000)})
				continue
			}
			os.RemoveAll(tmp)
			run.Fatal("lane %d ended without a result: %v", l, err)
		}
		os.Stderr.Write(k.errb.Bytes())
		var res laneResult
		if err := json.Unmarshal(b, &res); err != nil {
			run.Fatal("lane %d: bad result: %v", l, err)
		}
		evals += merge(&res, inter)
	}
	os.RemoveAll(tmp) // not deferred: Finish / Fatal leave through os.Exit
	run.Count("distinct-interleavings(yield-point-orderings)", int64(len(inter)))
	raceLogs(racePrefix)
	if ownRaceDir != "" {
		os.RemoveAll(ownRaceDir)
	}
	if run.Violations() == 0 && (run.Get("linearizability:ok") == 0 || run.Get("yield-points-hit") == 0) {
		run.Fatal("nothing observed: %d histories checked, %d yield points hit", run.Get("linearizability:ok"), run.Get("yield-points-hit"))
	}
	run.Extra("lanes", lanes)
	run.Extra("histories_requested", n)
	run.Assume("Start and Close of a Processor are issued by one owner goroutine (as everywhere in the library); Reset is used sequentially only")
	run.Assume("Close discards pending items; a Push issued while or after Close runs may be refused, or accepted and dropped; items accepted after Close that are executed must still be executed in acceptance order")
	run.Assume("the monotonic clock read by different goroutines is consistent (stamps of one clock)")
	run.Finish(evals,
		"sequential: every word over {Push,Pull,Close,Reset} of length 8 (capacities 1,2,4) - distinct = words that ran to full length; "+
			"concurrent: histories generated from (seed, index): layer ring|processor, scenario drain|close|error|nostart|parked, capacity 1..256, 1..8 producers, "+
			"Start before/during/after the pushes, yield rate 0-50% - distinct = distinct (parameter class, ordering of yield points hit, set of refused pushes) with >1 producer, a refusal, or a Close/error/parked scenario")
}

// replay re-checks a stored witness.
func replay(racePrefix string) {
	var raw map[string]any
	if err := run.LoadReplay(&raw); err != nil {
		run.Fatal("cannot load replay: %v", err)
	}
	kind, _ := raw["kind"].(string)
	wantKey := run.ReplayKey()
	switch kind {
	case "sequential":
		var w seqWitness
		_ = run.LoadReplay(&w)
		runSeq(newPuller(), w.Cap, []byte(w.Ops))
		run.Finish(1, "replay of a sequential word")
	case "race":
		// re-run the concurrent quick workload in this process and look at the race log again
		c := newCollector(0)
		verifhooks.SetYieldHook(yieldHook)
		t0 := time.Now()
		n := 0
		for i := 0; i < 3000 && time.Since(t0) < replayMaxWall; i++ {
			oneHistory(c, genParams(run.Rand("history", i), i))
			n++
		}
		verifhooks.SetYieldHook(nil)
		merge(c.finish(), map[uint64]struct{}{})
		raceLogs(racePrefix)
		run.Finish(int64(n), "replay: concurrent workload re-run under the race detector")
	default:
		var w concWitness
		if err := run.LoadReplay(&w); err != nil || w.History == nil {
			run.Fatal("unknown witness format")
		}
		c := newCollector(0)
		// (a) the recorded history, offline: shows that the witness violates the oracle; it says
		// nothing about the current code, so it is printed and not counted
		if w.Stuck == "" {
			k := judge(newCollector(-1), w.History, false)
			fmt.Printf("replay: recorded history re-checked offline: oracle says %q (stored key %q)\n", k, wantKey)
			run.Extra("stored_history_verdict", k)
		}
		// (b) the workload with the same parameters, a bounded number of times
		verifhooks.SetYieldHook(yieldHook)
		t0 := time.Now()
		n, hit := 0, 0
		for i := 0; i < replayReruns && time.Since(t0) < replayMaxWall; i++ {
			p := w.History.P
			p.Attempt = 100 + i
			if oneHistory(c, p) == wantKey {
				hit++
			}
			n++
		}
		verifhooks.SetYieldHook(nil)
		fmt.Printf("replay: workload re-run %d times with the same parameters, key reproduced %d times\n", n, hit)
		merge(c.finish(), map[uint64]struct{}{})
		raceLogs(racePrefix)
		run.Finish(int64(n+1), "replay: stored history re-checked offline + workload re-run with the same parameters")
	}
}

func tail(s string, n int) string {
	if len(s) > n {
		return s[len(s)-n:]
	}
	return s
}

// deathSite classifies the output of a process that died with a panic / fatal error: "lib:<func>"
// if the innermost non-runtime frame of the panicking goroutine is gortsplib code.
func deathSite(out string) (site, msg string) {
	i := strings.Index(out, "\npanic: ")
	if j := strings.Index(out, "\nfatal error: "); j >= 0 && (i < 0 || j < i) {
		i = j
	}
	if i < 0 {
		if strings.HasPrefix(out, "panic: ") || strings.HasPrefix(out, "fatal error: ") {
			i = -1
		} else {
			return "", ""
		}
	}
	rest := out[i+1:]
	msg, _, _ = strings.Cut(rest, "\n")
	g := strings.Index(rest, "\ngoroutine ")
	if g < 0 {
		return "", msg
	}
	for _, ln := range strings.Split(rest[g+1:], "\n")[1:] {
		if ln == "" {
			break
		}
		if strings.HasPrefix(ln, "\t") || strings.HasPrefix(ln, "panic(") || strings.HasPrefix(ln, "runtime.") ||
			strings.HasPrefix(ln, "sync.") || strings.HasPrefix(ln, "internal/") {
			continue
		}
		if strings.HasPrefix(ln, libPrefix) {
			f := ln
			if k := strings.LastIndex(f, "("); k > 0 {
				f = f[:k]
			}
			f = strings.TrimPrefix(strings.TrimPrefix(f, libPrefix+"/"), libPrefix+".")
			return "lib:" + f, msg
		}
		return "harness:" + ln, msg
	}
	return "", msg
}
