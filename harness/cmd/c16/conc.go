package main

import (
	"context"
	"errors"
	"fmt"
	"hash/fnv"
	"math/rand"
	"runtime"
	"sort"
	"sync"
	"sync/atomic"
	"time"

	"github.com/bluenviron/gortsplib/v5/pkg/ringbuffer"
	"github.com/bluenviron/gortsplib/v5/pkg/verifhooks"

	"verif/lib/vlib"
)

func vlibStack() string { return vlib.Stack() }

// One clock for all stamps. It is the monotonic clock and not a shared atomic counter on purpose:
// an atomic read-modify-write on one address orders all goroutines for the race detector and would
// hide missing synchronisation inside the library.
var clockBase = time.Now()

func now() int64 { return int64(time.Since(clockBase)) }

var errBoom = errors.New("verif: injected processing error")

// ---------------------------------------------------------------------------------------------
// yield hook

var pointNames = []string{
	"ring.Push.beforeLock", "ring.Push.beforeBroadcast", "ring.Pull.beforeLock", "ring.Pull.gotItem",
	"ring.Pull.wait", "ring.Close.beforeBroadcast", "proc.Close.afterCancel", "proc.Close.afterRingClose",
	"proc.run.beforeCallback", "other",
}

const (
	ptPushBeforeLock = 0
	ptPushDone       = 1
	ptPullBeforeLock = 2
	ptPullDone       = 3
	ptPullWait       = 4
)

func pointIdx(name string) uint8 {
	for i, n := range pointNames {
		if n == name {
			return uint8(i)
		}
	}
	return uint8(len(pointNames) - 1)
}

type yev struct {
	t int64
	p uint8
}

// glog is the per-goroutine record of yield points. Only its goroutine and (after the run) the
// collector lock it, so it does not order library goroutines among themselves.
type glog struct {
	mu sync.Mutex
	ev []yev
	// tight bounds of the last critical section of this goroutine: the clock when the hook at
	// "...beforeLock" returned and when the hook after the unlock ("ring.Push.beforeBroadcast",
	// "ring.Pull.gotItem") was entered. The library takes the ring mutex only between those points.
	lockExit  int64
	doneEnter int64
}

// tighten narrows a boundary interval [s,e] of one Push / Pull issued by the goroutine owning g to
// the stamps taken at the yield points around the critical section (sound as long as the points
// are where /repo has them: directly before Lock and directly after Unlock).
func (g *glog) tighten(s, e int64, done bool) (int64, int64) {
	g.mu.Lock()
	ls, de := g.lockExit, g.doneEnter
	g.mu.Unlock()
	if ls >= s && ls <= e {
		if done && de >= ls && de <= e {
			e = de
		}
		s = ls
	}
	return s, e
}

// runCtx is the state of one run that library callbacks and the hook touch.
type runCtx struct {
	prm params

	glMu sync.RWMutex // readers do not synchronise with each other
	gl   map[uint64]*glog

	parked atomic.Int32 // consumer reported "about to cond.Wait"

	// consumer side (processor layer)
	cons struct {
		mu      sync.Mutex
		ops     []op
		prevEnd int64
		onErr   []int64
		errBad  string
	}
	executed      atomic.Int64 // written by the consumer only
	errored       atomic.Int32
	inFailing     atomic.Int32 // error scenario with ErrClose: the failing callback is executing
	closeStarted  atomic.Bool
	busy          atomic.Int32
	overlap       atomic.Int32
	closeReturned atomic.Bool // stored once by the owner after Close returned
	late          atomic.Int32
	canary        int // plain variable: written by callbacks, read by the owner after Close returned

	abort atomic.Bool // set by the watchdog: internal waits give up

	panicMu sync.Mutex
	panics  []string // "site|value" of panics recovered on harness goroutines inside library calls
}

// guard is deferred on every harness goroutine that calls into the library.
func (rc *runCtx) guard() {
	if v := recover(); v != nil {
		site := panicSite(vlibStack())
		rc.panicMu.Lock()
		rc.panics = append(rc.panics, fmt.Sprintf("%s|%v", site, v))
		rc.panicMu.Unlock()
	}
}

func (rc *runCtx) panicked() string {
	rc.panicMu.Lock()
	defer rc.panicMu.Unlock()
	if len(rc.panics) > 0 {
		return rc.panics[0]
	}
	return ""
}

var curRun atomic.Pointer[runCtx]

func goid() uint64 {
	var buf [40]byte
	n := runtime.Stack(buf[:], false)
	var id uint64
	for _, c := range buf[len("goroutine "):n] {
		if c < '0' || c > '9' {
			break
		}
		id = id*10 + uint64(c-'0')
	}
	return id
}

func mix(x uint64) uint64 {
	x += 0x9E3779B97F4A7C15
	x = (x ^ (x >> 30)) * 0xBF58476D1CE4E5B9
	x = (x ^ (x >> 27)) * 0x94D049BB133111EB
	return x ^ (x >> 31)
}

func (rc *runCtx) glogOf(id uint64) *glog {
	rc.glMu.RLock()
	g := rc.gl[id]
	rc.glMu.RUnlock()
	if g == nil {
		rc.glMu.Lock()
		if g = rc.gl[id]; g == nil {
			g = &glog{}
			rc.gl[id] = g
		}
		rc.glMu.Unlock()
	}
	return g
}

// yieldHook is process-global and called from library goroutines. It records the point in the
// calling goroutine's own log and perturbs the schedule with the run's probability. Randomness is
// a hash of (yield seed, clock, goroutine, per-goroutine counter): no PRNG object is shared.
func yieldHook(name string) {
	rc := curRun.Load()
	if rc == nil {
		return
	}
	t := now()
	id := goid()
	g := rc.glogOf(id)
	pi := pointIdx(name)
	g.mu.Lock()
	g.ev = append(g.ev, yev{t, pi})
	n := uint64(len(g.ev))
	if pi == ptPushDone || pi == ptPullDone {
		g.doneEnter = t
	}
	g.mu.Unlock()
	if pi == ptPushBeforeLock || pi == ptPullBeforeLock {
		defer func() {
			te := now()
			g.mu.Lock()
			g.lockExit = te
			g.mu.Unlock()
		}()
	}
	if pi == ptPullWait {
		// called with the ring mutex held right before cond.Wait: record only
		rc.parked.Add(1)
		return
	}
	if rc.prm.YieldPct <= 0 {
		return
	}
	x := mix(rc.prm.YieldSeed ^ mix(uint64(t)) ^ (n << 40) ^ (id << 20) ^ uint64(pi))
	if int(x%100) < rc.prm.YieldPct {
		if (x>>8)%3 == 0 {
			runtime.Gosched()
		} else {
			time.Sleep(time.Duration((x>>16)%200) * time.Microsecond)
		}
	}
}

// collectYield merges the per-goroutine logs by time and hashes the sequence of point names.
func (rc *runCtx) collectYield() (hash uint64, hits int, perPoint []int) {
	perPoint = make([]int, len(pointNames))
	var all []yev
	rc.glMu.RLock()
	gls := make([]*glog, 0, len(rc.gl))
	for _, g := range rc.gl {
		gls = append(gls, g)
	}
	rc.glMu.RUnlock()
	for _, g := range gls {
		g.mu.Lock()
		all = append(all, g.ev...)
		g.mu.Unlock()
	}
	sort.SliceStable(all, func(i, j int) bool { return all[i].t < all[j].t })
	h := fnv.New64a()
	for _, e := range all {
		h.Write([]byte{e.p})
		perPoint[e.p]++
	}
	return h.Sum64(), len(all), perPoint
}

// ---------------------------------------------------------------------------------------------
// workload

func spin(n, us int) {
	for i := 0; i < n; i++ {
		runtime.Gosched()
	}
	if us > 0 {
		time.Sleep(time.Duration(us) * time.Microsecond)
	}
}

// waitFor polls cond until it holds or the run is aborted by the watchdog.
func (rc *runCtx) waitFor(cond func() bool) bool {
	for i := 0; ; i++ {
		if cond() {
			return true
		}
		if rc.abort.Load() {
			return false
		}
		if i < 50 {
			runtime.Gosched()
		} else {
			time.Sleep(20 * time.Microsecond)
		}
	}
}

type producerLog struct{ ops []op }

// producers starts the producer goroutines (released together by the returned function) and
// returns their logs and the WaitGroup to join them.
func producers(rc *runCtx, push func(id int) bool) (logs []*producerLog, release func(), wg *sync.WaitGroup) {
	p := rc.prm
	wg = &sync.WaitGroup{}
	gate := make(chan struct{})
	logs = make([]*producerLog, p.Producers)
	for i := 0; i < p.Producers; i++ {
		lg := &producerLog{ops: make([]op, 0, p.Items[i])}
		logs[i] = lg
		wg.Add(1)
		go func(i int) {
			defer wg.Done()
			defer rc.guard()
			g := rc.glogOf(goid()) // register before the gate: no synchronisation inside the run
			<-gate
			for k := 0; k < p.Items[i]; k++ {
				id := i*10000 + k
				s := now()
				ok := push(id)
				e := now()
				s, e = g.tighten(s, e, ok)
				lg.ops = append(lg.ops, op{C: i, K: "push", ID: id, OK: ok, S: s, E: e})
				if p.PushGap > 0 && int(mix(p.YieldSeed^uint64(id)*31)%100) < p.PushGap {
					runtime.Gosched()
				}
			}
		}(i)
	}
	return logs, func() { close(gate) }, wg
}

func dawdle(p *params, salt uint64) {
	if p.SlowPct <= 0 {
		return
	}
	x := mix(p.YieldSeed ^ salt*0x9E3779B1)
	if int(x%100) < p.SlowPct {
		if (x>>8)%2 == 0 {
			runtime.Gosched()
		} else {
			time.Sleep(time.Duration(20+(x>>16)%180) * time.Microsecond)
		}
	}
}

func newRunCtx(p params) *runCtx {
	rc := &runCtx{prm: p, gl: map[uint64]*glog{}}
	return rc
}

// runProc runs one processor-layer scenario and returns the recorded history.
// stuck is non-empty if the run did not complete (only possible after the watchdog set abort).
func runProc(rc *runCtx) (h *history, stuck string) {
	p := rc.prm
	h = &history{P: p, StartCall: -1, CloseCall: -1, CloseRet: -1}
	proc := &verifhooks.Processor{BufferSize: p.Cap}
	proc.OnError = func(ctx context.Context, err error) {
		t := now()
		rc.cons.mu.Lock()
		rc.cons.onErr = append(rc.cons.onErr, t)
		if ctx == nil || !errors.Is(err, errBoom) {
			rc.cons.errBad = fmt.Sprintf("OnError(ctx=%v, err=%v): want the processor's context and the callback's error", ctx, err)
		}
		rc.cons.mu.Unlock()
		rc.errored.Store(1)
	}
	proc.Initialize()

	cb := func(id int) func() error {
		return func() error {
			st := now()
			if !rc.busy.CompareAndSwap(0, 1) {
				rc.overlap.Add(1)
			}
			if rc.closeReturned.Load() {
				rc.late.Add(1)
			}
			rc.canary++
			// the Pull that delivered this item lies between the previous callback's return and st,
			// more precisely between the consumer's last two yield points around the ring mutex
			rc.cons.mu.Lock()
			ds, de := rc.glogOf(goid()).tighten(rc.cons.prevEnd, st, true)
			rc.cons.mu.Unlock()
			dawdle(&rc.prm, uint64(id)+7)
			rc.cons.mu.Lock()
			n := len(rc.cons.ops)
			en := now()
			rc.cons.ops = append(rc.cons.ops, op{C: p.Producers, K: "deq", ID: id, OK: true, S: ds, E: de, X: en})
			rc.cons.prevEnd = en
			rc.cons.mu.Unlock()
			if rc.closeReturned.Load() {
				rc.late.Add(1)
			}
			rc.busy.Store(0)
			rc.executed.Add(1)
			if p.Scenario == "error" && n == p.ErrAt {
				if p.ErrClose {
					// Close is made to overlap the failing callback: announce, wait (bounded) until the
					// owner has entered Close, linger a little so that its cancel has happened, then fail
					rc.inFailing.Store(1)
					for k := 0; k < 5000 && !rc.closeStarted.Load(); k++ {
						time.Sleep(20 * time.Microsecond)
					}
					time.Sleep(time.Duration(50+mix(p.YieldSeed^uint64(id))%200) * time.Microsecond)
				}
				return errBoom
			}
			return nil
		}
	}
	push := func(id int) bool { return proc.Push(cb(id)) }

	start := func() {
		t := now()
		h.StartCall = t
		rc.cons.mu.Lock()
		rc.cons.prevEnd = t
		rc.cons.mu.Unlock()
		proc.Start()
	}
	accepted := func(logs []*producerLog) int64 {
		var n int64
		for _, lg := range logs {
			for _, o := range lg.ops {
				if o.OK {
					n++
				}
			}
		}
		return n
	}
	var ownerOps []op
	closeIt := func() {
		s := now()
		h.CloseCall = s
		rc.closeStarted.Store(true)
		proc.Close()
		e := now()
		h.CloseRet = e
		h.Canary = rc.canary // plain read: ordered after every callback only if Close joined the consumer
		rc.closeReturned.Store(true)
		ownerOps = append(ownerOps, op{C: p.Producers + 1, K: "close", ID: -1, OK: true, S: s, E: e})
	}

	var logs []*producerLog
	switch p.Scenario {
	case "parked":
		// (3) lost wake-up: every push / the final close is issued only after the consumer reported
		// that it is about to wait.
		start()
		lg := &producerLog{}
		logs = []*producerLog{lg}
		for r := 0; r < p.Rounds; r++ {
			want := int32(r + 1)
			if !rc.waitFor(func() bool { return rc.parked.Load() >= want }) {
				return h, "consumer never reported waiting on an empty queue"
			}
			h.Parked++
			spin(p.OwnerSpin, p.OwnerUs)
			id := r
			s := now()
			ok := push(id)
			lg.ops = append(lg.ops, op{C: 0, K: "push", ID: id, OK: ok, S: s, E: now()})
			wantExec := int64(r + 1)
			if !rc.waitFor(func() bool { return rc.executed.Load() >= wantExec }) {
				h.Ops = append(h.Ops, lg.ops...)
				return h, fmt.Sprintf("consumer was waiting, item %d was pushed (accepted=%v) and never executed", id, ok)
			}
			h.Woken++
		}
		if !rc.waitFor(func() bool { return rc.parked.Load() >= int32(p.Rounds+1) }) {
			return h, "consumer never reported waiting on an empty queue"
		}
		h.Parked++
		spin(p.OwnerSpin, p.OwnerUs)
		done := make(chan struct{})
		go func() { closeIt(); close(done) }()
		if !rc.waitFor(func() bool {
			select {
			case <-done:
				return true
			default:
				return false
			}
		}) {
			return h, "Close did not return although the consumer was waiting on an empty queue"
		}
		h.Woken++
		h.Drained = true

	case "nostart":
		var release func()
		var wg *sync.WaitGroup
		logs, release, wg = producers(rc, push)
		release()
		if p.StartMode == 1 {
			spin(p.OwnerSpin, p.OwnerUs)
			closeIt()
			wg.Wait()
		} else {
			wg.Wait()
			closeIt()
		}
		if p.LateStart {
			// Start after Close has returned: the queue is closed, nothing may run (also pushes made
			// after Close are tried); a second Close stops whatever the late Start has begun
			lg := &producerLog{}
			for k := 0; k < 2; k++ {
				id := 80000 + k
				s := now()
				ok := push(id)
				lg.ops = append(lg.ops, op{C: p.Producers + 1, K: "push", ID: id, OK: ok, S: s, E: now()})
			}
			logs = append(logs, lg)
			proc.Start()
			spin(6, int(mix(p.YieldSeed^77)%200))
			proc.Close()
		}

	default: // drain | close | error
		var release func()
		var wg *sync.WaitGroup
		logs, release, wg = producers(rc, push)
		joined := false
		switch p.StartMode {
		case 0:
			start()
			release()
		case 1:
			release()
			spin(p.OwnerSpin, p.OwnerUs)
			start()
		default:
			release()
			wg.Wait()
			joined = true
			start()
		}
		if p.Scenario == "close" {
			spin(p.OwnerSpin, p.OwnerUs)
			closeIt()
			wg.Wait()
		} else {
			if !joined {
				wg.Wait()
			}
			acc := accepted(logs)
			if !rc.waitFor(func() bool {
				return rc.executed.Load() >= acc || rc.errored.Load() != 0 || rc.inFailing.Load() != 0
			}) {
				for _, lg := range logs {
					h.Ops = append(h.Ops, lg.ops...)
				}
				return h, fmt.Sprintf("%d items accepted, %d executed, consumer reported waiting %d times: queue does not drain",
					acc, rc.executed.Load(), rc.parked.Load())
			}
			h.Drained = !(rc.inFailing.Load() != 0 && rc.errored.Load() == 0) // not drained when Close overlaps the failing callback
			if rc.errored.Load() != 0 && p.PostErr > 0 {
				// the queue is stopped: later pushes are held (up to the capacity), never executed
				lg := &producerLog{}
				for k := 0; k < p.PostErr; k++ {
					id := 90000 + k
					s := now()
					ok := push(id)
					lg.ops = append(lg.ops, op{C: p.Producers + 1, K: "push", ID: id, OK: ok, S: s, E: now()})
				}
				logs = append(logs, lg)
				spin(p.OwnerSpin, 0)
			}
			closeIt()
		}
	}

	// grace period: a consumer that survived Close gets a chance to show itself
	if p.Scenario == "close" || p.Scenario == "error" {
		spin(3, int(mix(p.YieldSeed^99)%120))
	}
	for _, lg := range logs {
		h.Ops = append(h.Ops, lg.ops...)
	}
	rc.cons.mu.Lock()
	h.Ops = append(h.Ops, rc.cons.ops...)
	h.OnErr = append(h.OnErr, rc.cons.onErr...)
	h.OnErrBad = rc.cons.errBad
	rc.cons.mu.Unlock()
	h.Ops = append(h.Ops, ownerOps...)
	h.Overlap = int(rc.overlap.Load())
	h.Late = int(rc.late.Load())
	if p.Scenario != "parked" {
		h.Parked = int(rc.parked.Load())
	}
	return h, ""
}

// runRing runs one ring-layer scenario: the harness is the (single) consumer.
func runRing(rc *runCtx) (h *history, stuck string) {
	p := rc.prm
	h = &history{P: p, StartCall: -1, CloseCall: -1, CloseRet: -1}
	rb, err := ringbuffer.New(uint64(p.Cap))
	if err != nil {
		return h, "ringbuffer.New: " + err.Error()
	}
	var consumed atomic.Int64 // written by the consumer only
	var consOps []op
	consDone := make(chan struct{})
	consumer := func() {
		defer close(consDone)
		defer rc.guard()
		g := rc.glogOf(goid())
		for n := 0; ; n++ {
			s := now()
			v, ok := rb.Pull()
			e := now()
			s, e = g.tighten(s, e, ok)
			if !ok {
				consOps = append(consOps, op{C: p.Producers, K: "pullfalse", ID: -1, S: s, E: e})
				return
			}
			id, isInt := v.(int)
			if !isInt {
				id = -2
			}
			consOps = append(consOps, op{C: p.Producers, K: "deq", ID: id, OK: true, S: s, E: e, X: e})
			consumed.Add(1)
			dawdle(&rc.prm, uint64(n)+13)
		}
	}
	push := func(id int) bool { return rb.Push(id) }
	var ownerOps []op
	closeIt := func() {
		s := now()
		h.CloseCall = s
		rb.Close()
		e := now()
		h.CloseRet = e
		ownerOps = append(ownerOps, op{C: p.Producers + 1, K: "close", ID: -1, OK: true, S: s, E: e})
	}
	waitCons := func() bool {
		return rc.waitFor(func() bool {
			select {
			case <-consDone:
				return true
			default:
				return false
			}
		})
	}

	var logs []*producerLog
	if p.Scenario == "parked" {
		go consumer()
		lg := &producerLog{}
		logs = []*producerLog{lg}
		for r := 0; r < p.Rounds; r++ {
			want := int32(r + 1)
			if !rc.waitFor(func() bool { return rc.parked.Load() >= want }) {
				return h, "consumer never reported waiting on an empty ring"
			}
			h.Parked++
			spin(p.OwnerSpin, p.OwnerUs)
			s := now()
			ok := push(r)
			lg.ops = append(lg.ops, op{C: 0, K: "push", ID: r, OK: ok, S: s, E: now()})
			wantN := int64(r + 1)
			if !rc.waitFor(func() bool { return consumed.Load() >= wantN }) {
				return h, fmt.Sprintf("Pull was waiting, item %d was pushed (accepted=%v), Pull did not return it", r, ok)
			}
			h.Woken++
		}
		if !rc.waitFor(func() bool { return rc.parked.Load() >= int32(p.Rounds+1) }) {
			return h, "consumer never reported waiting on an empty ring"
		}
		h.Parked++
		spin(p.OwnerSpin, p.OwnerUs)
		closeIt()
		if !waitCons() {
			return h, "Pull was waiting, Close was called, Pull did not return"
		}
		h.Woken++
		h.Drained = true
	} else {
		var release func()
		var wg *sync.WaitGroup
		logs, release, wg = producers(rc, push)
		switch p.StartMode {
		case 0:
			go consumer()
			release()
		case 1:
			release()
			spin(p.OwnerSpin, p.OwnerUs)
			go consumer()
		default:
			release()
			wg.Wait()
			go consumer()
		}
		if p.Scenario == "close" {
			spin(p.OwnerSpin, p.OwnerUs)
			closeIt()
			wg.Wait()
		} else {
			wg.Wait()
			var acc int64
			for _, lg := range logs {
				for _, o := range lg.ops {
					if o.OK {
						acc++
					}
				}
			}
			if !rc.waitFor(func() bool { return consumed.Load() >= acc }) {
				for _, lg := range logs {
					h.Ops = append(h.Ops, lg.ops...)
				}
				return h, fmt.Sprintf("%d items accepted, %d pulled, consumer reported waiting %d times: ring does not drain",
					acc, consumed.Load(), rc.parked.Load())
			}
			h.Drained = true
			closeIt()
		}
		if !waitCons() {
			return h, "Close was called and all producers are done, Pull did not return false"
		}
	}
	for _, lg := range logs {
		h.Ops = append(h.Ops, lg.ops...)
	}
	h.Ops = append(h.Ops, consOps...)
	h.Ops = append(h.Ops, ownerOps...)
	if p.Scenario != "parked" {
		h.Parked = int(rc.parked.Load())
	}
	return h, ""
}

// runOnce executes the workload described by p under a watchdog. stuck != "" means the run did
// not complete within the watchdog; late is the worst scheduler lateness seen meanwhile.
func runOnce(p params, watchdog time.Duration) (h *history, stuck string, late time.Duration) {
	rc := newRunCtx(p)
	curRun.Store(rc)
	type res struct {
		h     *history
		stuck string
	}
	ch := make(chan res, 1)
	go func() {
		rc.glogOf(goid())
		var r res
		defer func() {
			if v := recover(); v != nil {
				site := panicSite(vlibStack())
				r.h = &history{P: p, StartCall: -1, CloseCall: -1, CloseRet: -1, Panic: fmt.Sprintf("%s|%v", site, v)}
			}
			ch <- r
		}()
		if p.Layer == "ring" {
			r.h, r.stuck = runRing(rc)
		} else {
			r.h, r.stuck = runProc(rc)
		}
		if r.h != nil && r.h.Panic == "" {
			r.h.Panic = rc.panicked()
		}
	}()
	canaryStop := make(chan struct{})
	var worst atomic.Int64
	go func() { // scheduler-lateness probe, only consulted when the watchdog fires
		for {
			t0 := time.Now()
			select {
			case <-canaryStop:
				return
			case <-time.After(5 * time.Millisecond):
			}
			if d := int64(time.Since(t0)) - int64(5*time.Millisecond); d > worst.Load() {
				worst.Store(d)
			}
		}
	}()
	defer close(canaryStop)
	var r res
	select {
	case r = <-ch:
	case <-time.After(watchdog):
		rc.abort.Store(true)
		select {
		case r = <-ch:
		case <-time.After(2 * time.Second):
			r = res{&history{P: p, StartCall: -1, CloseCall: -1, CloseRet: -1}, "hang: the run did not complete (a library call does not return)"}
		}
		if r.h != nil && r.h.Panic == "" {
			r.h.Panic = rc.panicked()
		}
		if r.stuck == "" {
			r.stuck = "the run needed longer than the watchdog"
		}
	}
	curRun.Store(nil)
	if r.h != nil {
		var per []int
		r.h.Interleave, r.h.YieldHits, per = rc.collectYield()
		_ = per
	}
	return r.h, r.stuck, time.Duration(worst.Load())
}

// ---------------------------------------------------------------------------------------------
// case generation: a function of (seed, tier, index) only

var capacities = []int{1, 2, 4, 8, 16, 32, 64, 128, 256}

func genParams(r *rand.Rand, index int) params {
	p := params{Index: index}
	p.YieldSeed = r.Uint64()
	p.YieldPct = []int{0, 1, 2, 5, 10, 20, 35, 50}[r.Intn(8)]
	p.SlowPct = []int{0, 0, 10, 30, 60}[r.Intn(5)]
	p.PushGap = []int{0, 10, 40}[r.Intn(3)]
	p.Layer = []string{"ring", "proc", "proc"}[r.Intn(3)]
	// small capacities are where refusals and index wrap-around happen with short histories
	switch r.Intn(10) {
	case 0, 1, 2:
		p.Cap = 1
	case 3, 4:
		p.Cap = 2
	case 5, 6:
		p.Cap = 4
	case 7:
		p.Cap = 8
	default:
		p.Cap = capacities[r.Intn(len(capacities))]
	}
	p.Producers = 1 + r.Intn(8)
	p.StartMode = r.Intn(3)
	p.OwnerSpin = r.Intn(40)
	if r.Intn(3) == 0 {
		p.OwnerUs = r.Intn(300)
	}
	k := r.Intn(100)
	switch {
	case k < 8:
		p.Scenario = "parked"
		p.Producers = 1
		p.Rounds = 1 + r.Intn(6)
		p.Items = []int{p.Rounds}
		return p
	case k < 40:
		p.Scenario = "drain"
	case k < 80:
		p.Scenario = "close"
	case k < 95:
		p.Scenario = "error"
		if p.Layer == "ring" {
			p.Scenario = "drain"
		}
		p.ErrAt = r.Intn(6)
		p.ErrClose = p.Scenario == "error" && r.Intn(5) < 2
		p.PostErr = r.Intn(p.Cap + 3)
		if p.PostErr > 12 {
			p.PostErr = 12
		}
	default:
		p.Scenario = "nostart"
		if p.Layer == "ring" {
			p.Scenario = "close"
		}
		p.StartMode = r.Intn(2)
		p.LateStart = p.Scenario == "nostart" && r.Intn(2) == 0
	}
	total := 4 + r.Intn(30) // short history: <= ~60 operations including dequeues and close
	if r.Intn(12) == 0 {
		// long history: wrap-around of large rings, direct invariants only
		p.Long = true
		p.OwnerUs = r.Intn(3000)
		p.Cap = capacities[r.Intn(len(capacities))]
		total = 300 + r.Intn(2200)
		p.SlowPct = []int{0, 0, 10}[r.Intn(3)]
		if p.YieldPct > 5 {
			p.YieldPct = 5
		}
	}
	p.Items = make([]int, p.Producers)
	for i := 0; i < total; i++ {
		p.Items[r.Intn(p.Producers)]++
	}
	return p
}
