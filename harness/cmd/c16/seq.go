package main

import (
	"fmt"
	"strings"
	"sync"
	"time"

	"github.com/bluenviron/gortsplib/v5/pkg/ringbuffer"

	"verif/lib/vlib"
)

// Sequential exhaustive part: every word over {Push, Pull, Close, Reset} up to length seqLen for
// capacities 1, 2, 4 is executed on a fresh RingBuffer and compared step by step with the model.
// Pull is issued only where it must not block (model: open and non-empty, or closed); a word is
// cut at the first disabled Pull (its prefix is covered by the other words).

const seqLen = 8

type seqWitness struct {
	Kind string `json:"kind"` // "sequential"
	Cap  int    `json:"cap"`
	Ops  string `json:"ops"` // one letter per operation: P push, L pull, C close, R reset
	Step int    `json:"step"`
	Got  string `json:"got"`
	Want string `json:"want"`
}

// seqModel: the reference bounded FIFO.
//
//	open:   Push accepted iff len(q) < cap; Pull returns the head
//	Close:  discards everything held
//	closed: Push may be refused or accepted (then held in post, possibly dropped);
//	        Pull returns false, or an item of post - which drops the items accepted before it,
//	        so items still leave in acceptance order and at most once
//	Reset:  empty and open again
type seqModel struct {
	cap    int
	q      []int
	post   []int
	closed bool
	status map[int]int // 1 returned, 2 discarded by Close/Reset, 3 accepted after Close and skipped
}

func (m *seqModel) discard() {
	for _, x := range append(m.q, m.post...) {
		m.status[x] = 2
	}
	m.q, m.post = nil, nil
}

type pullRes struct {
	v     any
	ok    bool
	panic string
	site  string
}

// puller guards the Pull calls of one enumeration job: Pull runs inline; a watchdog goroutine
// notices when the job makes no progress for 10 s, reports the word and closes the ring to get
// the job going again.
type puller struct {
	mu       sync.Mutex
	rb       *ringbuffer.RingBuffer
	word     string
	cap      int
	since    time.Time
	inPull   bool
	reported bool
	stop     chan struct{}
}

func newPuller() *puller {
	p := &puller{stop: make(chan struct{})}
	go func() {
		t := time.NewTicker(time.Second)
		defer t.Stop()
		for {
			select {
			case <-p.stop:
				return
			case <-t.C:
			}
			p.mu.Lock()
			if p.inPull && !p.reported && time.Since(p.since) > 10*time.Second {
				p.reported = true
				run.Violation("ring/seq/pull-blocks", fmt.Sprintf("capacity %d, operations %s: the last Pull does not return although the model says it must not block", p.cap, p.word),
					seqWitness{Kind: "sequential", Cap: p.cap, Ops: p.word, Step: len(p.word) - 1, Got: "Pull does not return", Want: "a value"})
				p.rb.Close()
			}
			p.mu.Unlock()
		}
	}()
	return p
}

func (p *puller) pull(rb *ringbuffer.RingBuffer, capacity int, word []byte) (r pullRes, returned bool) {
	p.mu.Lock()
	p.rb, p.cap, p.word, p.since, p.inPull, p.reported = rb, capacity, string(word), time.Now(), true, false
	p.mu.Unlock()
	defer func() {
		if v := recover(); v != nil {
			r.panic, r.site = fmt.Sprint(v), panicSite(vlib.Stack())
		}
		p.mu.Lock()
		p.inPull = false
		returned = !p.reported
		p.mu.Unlock()
	}()
	r.v, r.ok = rb.Pull()
	return r, true
}

// panicSite is vlib.PanicSite for a stack taken inside a deferred function: the frames of the
// deferred function itself (up to the runtime's panic frame) are not the panic's site.
func panicSite(stack string) string {
	if i := strings.Index(stack, "\npanic("); i >= 0 {
		stack = stack[i+1:]
	}
	return vlib.PanicSite(stack)
}

// runSeq executes one word; returns the number of steps compared and whether the word ran to its
// full length.
func runSeq(pl *puller, capacity int, word []byte) (steps int, full bool) {
	rb, err := ringbuffer.New(uint64(capacity))
	if err != nil {
		run.Violation("ring/seq/new-error", fmt.Sprintf("ringbuffer.New(%d): %v", capacity, err), seqWitness{Kind: "sequential", Cap: capacity})
		return 0, false
	}
	m := &seqModel{cap: capacity, status: map[int]int{}}
	next := 1
	fail := func(i int, key, got, want string) {
		run.Violation(key, fmt.Sprintf("capacity %d, operations %s, step %d: got %s, want %s", capacity, word[:i+1], i, got, want),
			seqWitness{Kind: "sequential", Cap: capacity, Ops: string(word[:i+1]), Step: i, Got: got, Want: want})
	}
	defer func() {
		if p := recover(); p != nil {
			st := vlib.Stack()
			run.Violation("ring/seq/panic/"+panicSite(st), fmt.Sprintf("capacity %d, operations %s: panic: %v", capacity, word, p),
				seqWitness{Kind: "sequential", Cap: capacity, Ops: string(word), Got: fmt.Sprint(p)})
		}
	}()
	for i, o := range word {
		switch o {
		case 'P':
			id := next
			next++
			ok := rb.Push(id)
			if !m.closed {
				want := len(m.q) < m.cap
				if ok != want {
					key := "push/refused-below-capacity"
					if ok {
						key = "push/accepted-beyond-capacity"
					}
					fail(i, key, fmt.Sprintf("Push=%v with %d items held", ok, len(m.q)), fmt.Sprint(want))
					return steps, false
				}
				if ok {
					m.q = append(m.q, id)
				}
			} else if ok {
				m.post = append(m.post, id)
			}
		case 'L':
			if !m.closed && len(m.q) == 0 {
				return steps, false // would block: word not enabled
			}
			r, returned := pl.pull(rb, capacity, word[:i+1])
			if !returned { // reported by the watchdog
				return steps, false
			}
			if r.panic != "" {
				fail(i, "ring/seq/panic/"+r.site, "panic "+r.panic, "a value")
				return steps, false
			}
			if !m.closed {
				if !r.ok || r.v != any(m.q[0]) {
					key := "fifo/executed-out-of-acceptance-order"
					if !r.ok {
						key = "pull/false-before-close"
					}
					fail(i, key, fmt.Sprintf("Pull=(%v,%v)", r.v, r.ok), fmt.Sprintf("(%d,true)", m.q[0]))
					return steps, false
				}
				m.status[m.q[0]] = 1
				m.q = m.q[1:]
			} else if r.ok {
				id, _ := r.v.(int)
				k := -1
				for j, x := range m.post {
					if x == id {
						k = j
					}
				}
				if k < 0 {
					key := "exec/refused-or-unknown-item"
					switch m.status[id] {
					case 1:
						key = "exec/twice"
					case 2:
						key = "ring/seq/closed/pull-returns-discarded-item"
					case 3: // accepted after Close, overtaken by an item accepted later
						key = "fifo/post-close-push-overtakes"
					}
					fail(i, key, fmt.Sprintf("Pull=(%v,true) after Close", r.v),
						fmt.Sprintf("false or the next of the items accepted after Close %v (in acceptance order, each at most once)", m.post))
					return steps, false
				}
				for _, x := range m.post[:k] {
					m.status[x] = 3
				}
				m.status[id] = 1
				m.post = m.post[k+1:]
			}
		case 'C':
			rb.Close()
			m.discard()
			m.closed = true
		case 'R':
			rb.Reset()
			m.discard()
			m.closed = false
		}
		steps++
	}
	return steps, true
}

// seqExhaustive enumerates all words of length seqLen (and thereby all shorter prefixes).
func seqExhaustive() {
	letters := []byte("PLCR")
	type job struct {
		cap    int
		prefix [2]byte
	}
	var jobs []job
	for _, c := range []int{1, 2, 4} {
		for _, a := range letters {
			for _, b := range letters {
				jobs = append(jobs, job{c, [2]byte{a, b}})
			}
		}
	}
	run.Parallel(len(jobs), func(_, ji int) {
		j := jobs[ji]
		word := make([]byte, seqLen)
		word[0], word[1] = j.prefix[0], j.prefix[1]
		n := 1
		for i := 2; i < seqLen; i++ {
			n *= 4
		}
		var steps, fullWords, cut int64
		pl := newPuller()
		defer close(pl.stop)
		for x := 0; x < n; x++ {
			v := x
			for i := 2; i < seqLen; i++ {
				word[i] = letters[v%4]
				v /= 4
			}
			s, full := runSeq(pl, j.cap, word)
			steps += int64(s)
			if full {
				fullWords++
				run.Distinct(fmt.Sprintf("seq|%d|%s", j.cap, word))
			} else {
				cut++
			}
		}
		seqEvals.Add(fullWords + cut)
		run.Count("seq:words-run-to-full-length", fullWords)
		run.Count("seq:words-cut-at-disabled-pull", cut)
		run.Count("seq:steps-compared", steps)
	}, func(i int, v any, stack string) {
		run.Violation("ring/seq/panic/"+vlib.PanicSite(stack), fmt.Sprintf("panic: %v", v), seqWitness{Kind: "sequential", Cap: jobs[i].cap, Got: stack})
	})
	run.Extra("sequential_part", fmt.Sprintf("all words over {Push,Pull(if it cannot block),Close,Reset} of length <= %d, capacities 1,2,4: exhaustive", seqLen))
}
