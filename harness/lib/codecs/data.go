package codecs

import (
	"bytes"
	"errors"
	"fmt"
	"image"
	"image/jpeg"
	"math/rand"
	"sort"
	"sync"

	"github.com/bluenviron/gortsplib/v5/pkg/format/rtpklv"
	"github.com/bluenviron/gortsplib/v5/pkg/format/rtpmjpeg"
	"github.com/bluenviron/gortsplib/v5/pkg/format/rtpmpegts"
)

// ---------------------------------------------------------------------------------------------
// M-JPEG: base images made by image/jpeg (baseline, 8 bit, YCbCr 4:2:0 - the only sampling of
// image/jpeg that the RTP encoder accepts), brought to an exact entropy-coded-segment length by
// 0xFF fill bytes before EOI (legal: any marker may be preceded by fill bytes).

type jpegBase struct {
	head []byte // SOI .. end of SOS header
	data []byte // entropy-coded segment, without EOI
	mcus int    // 16x16 MCUs of the 4:2:0 image
}

var (
	jpegOnce  sync.Once
	jpegBases []jpegBase // sorted by len(data)
)

func jpegTable() []jpegBase {
	jpegOnce.Do(func() {
		r := NewRand(0x6a706567)
		dims := [][2]int{{8, 8}, {16, 8}, {16, 16}, {32, 16}, {32, 32}, {64, 32}, {64, 64}, {128, 64}, {128, 128},
			{256, 128}, {256, 256}, {2040, 8}, {8, 2040}, {640, 480}}
		for _, d := range dims {
			for _, q := range []int{15, 60, 92} {
				for _, noise := range []int{0, 24, 255} {
					img := image.NewYCbCr(image.Rect(0, 0, d[0], d[1]), image.YCbCrSubsampleRatio420)
					for _, pl := range [][]byte{img.Y, img.Cb, img.Cr} {
						base := r.Intn(256)
						for i := range pl {
							pl[i] = byte(base)
							if noise > 0 {
								pl[i] = byte(base + r.Intn(noise+1))
							}
						}
					}
					var buf bytes.Buffer
					if err := jpeg.Encode(&buf, img, &jpeg.Options{Quality: q}); err != nil {
						panic(err)
					}
					j, err := ParseJPEG(buf.Bytes())
					if err != nil {
						panic(err)
					}
					b := buf.Bytes()
					jpegBases = append(jpegBases, jpegBase{head: b[:len(b)-2-len(j.Data)], data: j.Data, mcus: ((d[0] + 15) / 16) * ((d[1] + 15) / 16)})
				}
			}
		}
		sort.SliceStable(jpegBases, func(i, k int) bool { return len(jpegBases[i].data) < len(jpegBases[k].data) })
	})
	return jpegBases
}

// JPEGInfo is what M-JPEG over RTP preserves of an image.
type JPEGInfo struct {
	Width, Height int
	Sampling      [3]byte         // sampling factors of the 3 components
	QTables       map[byte][]byte // by table id
	Data          []byte          // entropy-coded segment: bytes after the SOS header up to the final EOI
}

// ParseJPEG is a small marker walker (SOI, any segments, SOF0, DQT, SOS, data, EOI).
func ParseJPEG(b []byte) (*JPEGInfo, error) {
	if len(b) < 4 || b[0] != 0xFF || b[1] != 0xD8 {
		return nil, fmt.Errorf("no SOI")
	}
	j := &JPEGInfo{QTables: map[byte][]byte{}}
	p := 2
	for {
		if p+4 > len(b) || b[p] != 0xFF {
			return nil, fmt.Errorf("bad marker at %d", p)
		}
		m := b[p+1]
		l := int(b[p+2])<<8 | int(b[p+3])
		if l < 2 || p+2+l > len(b) {
			return nil, fmt.Errorf("bad segment length at %d", p)
		}
		seg := b[p+4 : p+2+l]
		p += 2 + l
		switch m {
		case 0xC0:
			if len(seg) != 15 || seg[5] != 3 {
				return nil, fmt.Errorf("unsupported SOF")
			}
			j.Height, j.Width = int(seg[1])<<8|int(seg[2]), int(seg[3])<<8|int(seg[4])
			j.Sampling = [3]byte{seg[7], seg[10], seg[13]}
		case 0xDB:
			for len(seg) >= 65 {
				j.QTables[seg[0]&0x0f] = seg[1:65]
				seg = seg[65:]
			}
		case 0xDA:
			if len(b)-p < 2 || b[len(b)-2] != 0xFF || b[len(b)-1] != 0xD9 {
				return nil, fmt.Errorf("no EOI")
			}
			j.Data = b[p : len(b)-2]
			return j, nil
		}
	}
}

func sameJPEG(in, out []byte) (bool, string) {
	a, err := ParseJPEG(in)
	if err != nil {
		return false, "input-unparseable"
	}
	b, err := ParseJPEG(out)
	if err != nil {
		return false, "output-unparseable"
	}
	switch {
	case a.Width != b.Width || a.Height != b.Height:
		return false, "dimensions-differ"
	case a.Sampling != b.Sampling:
		return false, "sampling-differs"
	case len(a.QTables) != len(b.QTables):
		return false, "qtables-differ"
	}
	for id, t := range a.QTables {
		if !bytes.Equal(t, b.QTables[id]) {
			return false, "qtables-differ"
		}
	}
	if !bytes.Equal(a.Data, b.Data) {
		return false, "entropy-data-differs"
	}
	return true, ""
}

func init() {
	register(&Format{
		Name: "rtpmjpeg", Stateful: true, Video: true, Family: WholeFrame, Blob: true, FixedPT: 26, LimitBound: true,
		MarkerEndsFrame: true, MaxFrameSize: 1 << 24, Same: sameJPEG,
		Params: []Params{{Label: "default"}, {Label: "restart-interval", Variant: "dri"}},
		Grammar: "image = baseline JPEG written by image/jpeg (8 bit, YCbCr 4:2:0, two quantisation tables, standard Huffman tables), " +
			"dimensions multiple of 8 up to 2040, qualities 15/60/92, flat..noisy content; quantiser values of the last 16 chroma " +
			"entries carry the frame counter; exact entropy-segment length reached with FF fill bytes before EOI; unit size = " +
			"entropy-coded segment incl. EOI (what is fragmented); restart-interval: the same with a DRI segment whose interval is the " +
			"number of MCUs of the image (so no RSTn marker is due) - the encoder then sends RFC 2435 types 64..127 with a restart header",
		// first packet: 8 (main header) [+ 4 restart header] + 4 + 128 (quantisation table header); a first
		// packet without room for data would repeat fragment offset 0
		MinLimit: func(p Params) int {
			if p.Variant == "dri" {
				return 145
			}
			return 141
		},
		MinUnit: func(Params) int { return len(jpegTable()[0].data) + 2 },
		Strategy: func(p Params, m int) Strategy {
			if p.Variant == "dri" {
				return Strategy{Single: m - 144, FragFirst: m - 144, FragNext: m - 12}
			}
			return Strategy{Single: m - 140, FragFirst: m - 140, FragNext: m - 8}
		},
		NewEncoder: func(_ Params, c EncConf) (EncodeFunc, error) {
			e := &rtpmjpeg.Encoder{SSRC: &c.SSRC, InitialSequenceNumber: &c.InitialSequenceNumber, PayloadMaxSize: c.PayloadMaxSize}
			return blobEnc(e.Encode), e.Init()
		},
		NewDecoder: func(Params) (DecodeFunc, error) {
			d := &rtpmjpeg.Decoder{}
			return blobDec(d.Decode), d.Init()
		},
		Gen: func(r *rand.Rand, p Params, sizes []int, counter uint64) [][]byte {
			tab := jpegTable()
			want := sum(sizes) - 2 // without EOI
			hi := sort.Search(len(tab), func(i int) bool { return len(tab[i].data) > want })
			b := tab[0]
			if hi > 0 { // one of the (up to 6) largest bases that fit
				b = tab[hi-1-r.Intn(min(hi, 6))]
			}
			out := make([]byte, 0, len(b.head)+max(want, len(b.data))+8)
			if sof := bytes.Index(b.head, []byte{0xFF, 0xC0}); p.Variant == "dri" && sof > 0 {
				ri := min(b.mcus, 65535)
				out = append(append(out, b.head[:sof]...), 0xFF, 0xDD, 0, 4, byte(ri>>8), byte(ri))
				out = append(out, b.head[sof:]...)
			} else {
				out = append(out, b.head...)
			}
			if counter != 0 { // 16 nibbles into the last 16 quantisers of table 1 (values 1..16)
				if i := bytes.Index(out, []byte{0xFF, 0xDB}); i >= 0 {
					q := out[i+4+65+1+48:]
					for k := 0; k < 16; k++ {
						q[k] = 1 + byte(counter>>(4*k))&0x0f
					}
				}
			}
			out = append(out, b.data...)
			for n := len(b.data); n < want; n++ {
				out = append(out, 0xFF)
			}
			return [][]byte{append(out, 0xFF, 0xD9)}
		},
		IsMore: func(err error) bool { return errors.Is(err, rtpmjpeg.ErrMorePacketsNeeded) },
	})

	// ---- MPEG-TS (RFC 2250): as many whole 188-byte packets per RTP packet as fit
	register(&Format{
		Name: "rtpmpegts", Family: Stateless, FixedPT: 33, LimitBound: true, FixedUnit: 188, Params: one,
		Grammar:  "group = 1..n transport packets of 188 bytes: sync byte 47, PRNG PID / flags / continuity counter / payload",
		MinLimit: constInt(188), MinUnit: constInt(188),
		Strategy: func(_ Params, m int) Strategy { return Strategy{Single: 188} },
		NewEncoder: func(_ Params, c EncConf) (EncodeFunc, error) {
			e := &rtpmpegts.Encoder{SSRC: &c.SSRC, InitialSequenceNumber: &c.InitialSequenceNumber, PayloadMaxSize: c.PayloadMaxSize}
			return e.Encode, e.Init()
		},
		NewDecoder: func(Params) (DecodeFunc, error) {
			d := &rtpmpegts.Decoder{}
			return d.Decode, d.Init()
		},
		Gen: func(r *rand.Rand, _ Params, sizes []int, counter uint64) [][]byte {
			fr := make([][]byte, len(sizes))
			for i := range sizes {
				u := randBytes(r, 188)
				u[0] = 0x47
				u[3] = u[3]&0xc0 | 0x10 | byte(i)&0x0f // payload only, continuity counter
				if i == 0 {
					putCounter(u[4:], counter)
				}
				fr[i] = u
			}
			return fr
		},
		IsMore: neverMore,
	})

	// ---- KLV (RFC 6597): KLVunit cut into limit-sized pieces, marker on the last
	register(&Format{
		Name: "rtpklv", Stateful: true, Family: WholeFrame, Blob: true, FixedPT: -1, LimitBound: true, MarkerEndsFrame: true,
		Params: []Params{{Label: "single-item"}, {Label: "multi-item", Variant: "multi"}},
		Grammar: "KLVunit = 1 KLV item (single-item) or 1..n items (multi-item; RFC 6597: a KLVunit is one or more KLV items); item = " +
			"16-byte universal label 06 0e 2b 34 + 12 PRNG bytes, BER length (short form or long form 81..88, also non-minimal), value; " +
			"size vector = item sizes (single-item: their sum)",
		// the decoder recognises the start of a unit by the 4-byte label prefix
		MinLimit: constInt(4), MinUnit: constInt(17),
		Strategy: func(_ Params, m int) Strategy { return Strategy{Single: m, FragFirst: m, FragNext: m} },
		Extra:    func(_ Params, m int) []int { return []int{17, 17 + 127, 18 + 128, 18 + 255, 19 + 256} },
		NewEncoder: func(_ Params, c EncConf) (EncodeFunc, error) {
			e := &rtpklv.Encoder{PayloadType: c.PayloadType, SSRC: &c.SSRC, InitialSequenceNumber: &c.InitialSequenceNumber,
				PayloadMaxSize: c.PayloadMaxSize}
			return blobEnc(e.Encode), e.Init()
		},
		NewDecoder: func(Params) (DecodeFunc, error) {
			d := &rtpklv.Decoder{}
			return blobDec(d.Decode), d.Init()
		},
		Gen: func(r *rand.Rand, p Params, sizes []int, counter uint64) [][]byte {
			if p.Variant != "multi" {
				sizes = []int{sum(sizes)}
			}
			var out []byte
			for i, n := range sizes {
				n = max(n, 17)
				// feasible BER forms for a total of n bytes: k length-of-length bytes (0 = short form)
				var forms []int
				for k := 0; k <= 8; k++ {
					v := n - 17 - k
					if v >= 0 && (k == 0 && v <= 127 || k > 0 && (k >= 4 || v < 1<<(8*k))) {
						forms = append(forms, k)
					}
				}
				k := forms[r.Intn(len(forms))]
				v := n - 17 - k
				u := randBytes(r, n)
				copy(u, []byte{0x06, 0x0e, 0x2b, 0x34})
				if i == 0 {
					putCounter(u[5:16], counter)
				}
				if k == 0 {
					u[16] = byte(v)
				} else {
					u[16] = 0x80 | byte(k)
					for b := 0; b < k; b++ {
						u[17+b] = byte(v >> (8 * (k - 1 - b)))
					}
				}
				out = append(out, u...)
			}
			return [][]byte{out}
		},
		IsMore: func(err error) bool { return errors.Is(err, rtpklv.ErrMorePacketsNeeded) },
	})
}
