package codecs

import (
	"errors"
	"math/rand"
	"sort"
	"sync"

	"github.com/bluenviron/gortsplib/v5/pkg/format/rtpac3"
	"github.com/bluenviron/gortsplib/v5/pkg/format/rtplpcm"
	"github.com/bluenviron/gortsplib/v5/pkg/format/rtpmpeg1audio"
	"github.com/bluenviron/gortsplib/v5/pkg/format/rtpmpeg4audio"
	"github.com/bluenviron/gortsplib/v5/pkg/format/rtpsimpleaudio"
	"github.com/bluenviron/mediacommon/v2/pkg/codecs/ac3"
	"github.com/bluenviron/mediacommon/v2/pkg/codecs/mpeg1audio"
	"github.com/pion/rtp"
)

// sized header templates of the formats whose frame length is dictated by the frame header
type hdrTable struct {
	sizes []int
	hdrs  map[int][][]byte
}

func (t *hdrTable) add(size int, h []byte) {
	if t.hdrs == nil {
		t.hdrs = map[int][][]byte{}
	}
	if _, ok := t.hdrs[size]; !ok {
		t.sizes = append(t.sizes, size)
	}
	t.hdrs[size] = append(t.hdrs[size], h)
}

var (
	mp1Once, ac3Once sync.Once
	mp1Tab, mp1LSF3  hdrTable
	ac3Tab           hdrTable
)

// every MPEG-1/2 layer II/III header (bitrate x sample rate x padding). Table "default": MPEG-1
// layer II/III and MPEG-2 layer II, where the length the library derives from the header
// (mediacommon FrameHeader.FrameLen = 144*bitrate/rate+padding) is the ISO 11172-3 / 13818-3 one.
// Table "lsf3": MPEG-2 (LSF) layer III, whose ISO 13818-3 frames hold 576 samples and are
// 72*bitrate/rate+padding bytes long.
func mp1Table(variant string) *hdrTable {
	mp1Once.Do(func() {
		for _, id := range []byte{1, 0} { // 1 = MPEG-1, 0 = MPEG-2
			for _, layerBits := range []byte{2, 1} { // layer II, layer III
				for br := byte(1); br < 15; br++ {
					for sr := byte(0); sr < 3; sr++ {
						for pad := byte(0); pad < 2; pad++ {
							h := []byte{0xFF, 0xF0 | id<<3 | layerBits<<1 | 1, br<<4 | sr<<2 | pad<<1, 0, 0}
							var fh mpeg1audio.FrameHeader
							if fh.Unmarshal(h) != nil {
								continue
							}
							if id == 0 && layerBits == 1 {
								mp1LSF3.add(72*fh.Bitrate/fh.SampleRate+int(pad), h[:3])
							} else {
								mp1Tab.add(fh.FrameLen(), h[:3])
							}
						}
					}
				}
			}
		}
		sort.Ints(mp1Tab.sizes)
		sort.Ints(mp1LSF3.sizes)
	})
	if variant == "lsf3" {
		return &mp1LSF3
	}
	return &mp1Tab
}

func ac3Table() *hdrTable {
	ac3Once.Do(func() {
		for fs := byte(0); fs < 3; fs++ {
			for c := byte(0); c < 38; c++ {
				h := []byte{0x0B, 0x77, 0, 0, fs<<6 | c}
				var si ac3.SyncInfo
				if si.Unmarshal(h) == nil {
					ac3Tab.add(si.FrameSize(), h)
				}
			}
		}
		sort.Ints(ac3Tab.sizes)
	})
	return &ac3Tab
}

func init() {
	// ---- MPEG-4 audio, RFC 3640 generic mode: AU-headers-length + AU headers + AUs
	auHdrBytes := func(p Params) int { return (p.SizeLength + p.IndexLength + 7) / 8 }
	register(&Format{
		Name: "rtpmpeg4audio", Stateful: true, Family: AudioGroup, FixedPT: -1, LimitBound: true, MarkerEndsFrame: true,
		MaxFrameSize: 5 << 10,
		Params: []Params{
			{Label: "hbr-13-3-3", SizeLength: 13, IndexLength: 3, IndexDeltaLength: 3},
			{Label: "lbr-6-2-2", SizeLength: 6, IndexLength: 2, IndexDeltaLength: 2},
			{Label: "13-0-0", SizeLength: 13},
			{Label: "21-3-3", SizeLength: 21, IndexLength: 3, IndexDeltaLength: 3},
			// index and index-delta fields of different widths: the first AU header and the
			// following ones then have different sizes
			{Label: "13-3-4", SizeLength: 13, IndexLength: 3, IndexDeltaLength: 4},
			{Label: "11-5-2", SizeLength: 11, IndexLength: 5, IndexDeltaLength: 2},
		},
		Grammar: "group = 1..n access units of 1..min(2^SizeLength-1, 5120) bytes; first byte never FF (a raw_data_block " +
			"starting with FF Fx would be taken for ADTS by the decoder's camera work-around)",
		MinLimit: func(p Params) int { return 2 + auHdrBytes(p) + 1 },
		MinUnit:  constInt(1),
		MaxUnitSize: func(p Params) int {
			return min(1<<p.SizeLength-1, 5<<10)
		},
		Strategy: func(p Params, m int) Strategy {
			a := m - 2 - auHdrBytes(p)
			return Strategy{Single: a - 1, FragFirst: a, FragNext: a, AggFixed: 2, AggPerUnit: (p.SizeLength + p.IndexDeltaLength + 7) / 8}
		},
		Extra: func(p Params, m int) []int { return []int{1<<p.SizeLength - 1, 5 << 10} },
		NewEncoder: func(p Params, c EncConf) (EncodeFunc, error) {
			e := &rtpmpeg4audio.Encoder{PayloadType: c.PayloadType, SSRC: &c.SSRC, InitialSequenceNumber: &c.InitialSequenceNumber,
				PayloadMaxSize: c.PayloadMaxSize, SizeLength: p.SizeLength, IndexLength: p.IndexLength, IndexDeltaLength: p.IndexDeltaLength}
			return e.Encode, e.Init()
		},
		NewDecoder: func(p Params) (DecodeFunc, error) {
			d := &rtpmpeg4audio.Decoder{SizeLength: p.SizeLength, IndexLength: p.IndexLength, IndexDeltaLength: p.IndexDeltaLength}
			return d.Decode, d.Init()
		},
		Gen: func(r *rand.Rand, p Params, sizes []int, counter uint64) [][]byte {
			fr := make([][]byte, len(sizes))
			k := largest(sizes)
			mx := min(1<<p.SizeLength-1, 5<<10)
			for i, n := range sizes {
				u := randBytes(r, min(max(n, 1), mx))
				if i == k {
					putCounter(u, counter)
				}
				if u[0] == 0xFF {
					u[0] = 0x21
				}
				fr[i] = u
			}
			return fr
		},
		IsMore: func(err error) bool { return errors.Is(err, rtpmpeg4audio.ErrMorePacketsNeeded) },
	})

	// ---- MPEG-1/2 audio (RFC 2250): 4-byte header (MBZ, fragment offset) + frames
	register(&Format{
		Name: "rtpmpeg1audio", Stateful: true, Family: AudioGroup, FixedPT: 14, LimitBound: true, MarkerEndsFrame: true,
		MaxFrameSize: 1729,
		Params:       []Params{{Label: "default"}, {Label: "mpeg2-layer3", Variant: "lsf3"}},
		Grammar: "group = 1..n frames; frame = valid 4-byte header (sync FFF, no CRC, every bitrate x sample rate x padding) + PRNG " +
			"body; default: MPEG-1 layer II/III and MPEG-2 layer II, 144*bitrate/rate+padding bytes; mpeg2-layer3: MPEG-2 (LSF) " +
			"layer III, 72*bitrate/rate+padding bytes (ISO 13818-3: 576 samples per frame)",
		MinLimit: constInt(9), MinUnit: func(p Params) int { return mp1Table(p.Variant).sizes[0] },
		LegalSizes: func(p Params) []int { return mp1Table(p.Variant).sizes },
		Strategy: func(_ Params, m int) Strategy {
			return Strategy{Single: m - 5, FragFirst: m - 4, FragNext: m - 4, AggFixed: 4}
		},
		NewEncoder: func(_ Params, c EncConf) (EncodeFunc, error) {
			e := &rtpmpeg1audio.Encoder{SSRC: &c.SSRC, InitialSequenceNumber: &c.InitialSequenceNumber, PayloadMaxSize: c.PayloadMaxSize}
			return e.Encode, e.Init()
		},
		NewDecoder: func(Params) (DecodeFunc, error) {
			d := &rtpmpeg1audio.Decoder{}
			return d.Decode, d.Init()
		},
		Gen: func(r *rand.Rand, p Params, sizes []int, counter uint64) [][]byte {
			return genTable(r, mp1Table(p.Variant), 4, sizes, counter)
		},
		IsMore: func(err error) bool { return errors.Is(err, rtpmpeg1audio.ErrMorePacketsNeeded) },
	})

	// ---- AC-3 (RFC 4184): 2-byte header (frame type, count) + frames
	register(&Format{
		Name: "rtpac3", Stateful: true, Family: AudioGroup, FixedPT: -1, LimitBound: true, MarkerEndsFrame: true,
		MaxFrameSize: 3840, Params: one,
		Grammar: "group = 1..n syncframes; frame = 0B 77 + crc1 + fscod/frmsizecod (all 3 x 38 codes) + PRNG body; length = " +
			"2 x the table entry of the code",
		MinLimit: constInt(9), MinUnit: func(Params) int { return ac3Table().sizes[0] },
		LegalSizes: func(Params) []int { return ac3Table().sizes },
		Strategy: func(_ Params, m int) Strategy {
			return Strategy{Single: m - 3, FragFirst: m - 4, FragNext: m - 4, AggFixed: 2}
		},
		NewEncoder: func(_ Params, c EncConf) (EncodeFunc, error) {
			e := &rtpac3.Encoder{PayloadType: c.PayloadType, SSRC: &c.SSRC, InitialSequenceNumber: &c.InitialSequenceNumber,
				PayloadMaxSize: c.PayloadMaxSize}
			return e.Encode, e.Init()
		},
		NewDecoder: func(Params) (DecodeFunc, error) {
			d := &rtpac3.Decoder{}
			return d.Decode, d.Init()
		},
		Gen: func(r *rand.Rand, _ Params, sizes []int, counter uint64) [][]byte {
			return genTable(r, ac3Table(), 5, sizes, counter)
		},
		IsMore: func(err error) bool { return errors.Is(err, rtpac3.ErrMorePacketsNeeded) },
	})

	// ---- LPCM / G711 (RFC 3190 / 3551): sample-aligned split, decoder is the identity
	var lp []Params
	for _, dc := range [][2]int{{8, 1}, {8, 2}, {16, 1}, {16, 2}, {24, 1}, {24, 2}, {16, 6}, {24, 8}} {
		lp = append(lp, Params{Label: "d" + itoa(dc[0]) + "c" + itoa(dc[1]), BitDepth: dc[0], Channels: dc[1]})
	}
	ss := func(p Params) int { return p.BitDepth * p.Channels / 8 }
	register(&Format{
		Name: "rtplpcm", Family: Stateless, Blob: true, FixedPT: -1, LimitBound: true, Params: lp,
		Grammar:  "block = whole samples: a non-empty multiple of BitDepth x Channels / 8 bytes (depth 8/16/24, 1..8 channels; 8 bit = G711)",
		MinLimit: ss, MinUnit: ss,
		Strategy: func(p Params, m int) Strategy {
			a := m / ss(p) * ss(p)
			return Strategy{Single: a, FragFirst: a, FragNext: a}
		},
		NewEncoder: func(p Params, c EncConf) (EncodeFunc, error) {
			e := &rtplpcm.Encoder{PayloadType: c.PayloadType, SSRC: &c.SSRC, InitialSequenceNumber: &c.InitialSequenceNumber,
				PayloadMaxSize: c.PayloadMaxSize, BitDepth: p.BitDepth, ChannelCount: p.Channels}
			return blobEnc(e.Encode), e.Init()
		},
		NewDecoder: func(p Params) (DecodeFunc, error) {
			d := &rtplpcm.Decoder{BitDepth: p.BitDepth, ChannelCount: p.Channels}
			return blobDec(d.Decode), d.Init()
		},
		Gen: func(r *rand.Rand, p Params, sizes []int, counter uint64) [][]byte {
			n := max(sum(sizes), 1)
			u := randBytes(r, (n+ss(p)-1)/ss(p)*ss(p))
			putCounter(u, counter)
			return [][]byte{u}
		},
		IsMore: neverMore,
	})

	// ---- simple audio (Opus, G722 ...): exactly one packet per frame, never split
	register(&Format{
		Name: "rtpsimpleaudio", Family: Stateless, Blob: true, FixedPT: -1, LimitBound: false, Params: one,
		Grammar:  "frame = any non-empty byte string (one Opus / G722 packet); sent in exactly one RTP packet",
		MinLimit: constInt(1), MinUnit: constInt(1),
		Strategy: func(_ Params, m int) Strategy { return Strategy{Single: m} },
		NewEncoder: func(_ Params, c EncConf) (EncodeFunc, error) {
			e := &rtpsimpleaudio.Encoder{PayloadType: c.PayloadType, SSRC: &c.SSRC, InitialSequenceNumber: &c.InitialSequenceNumber,
				PayloadMaxSize: c.PayloadMaxSize}
			return func(fr [][]byte) ([]*rtp.Packet, error) {
				pkt, err := e.Encode(fr[0])
				if err != nil {
					return nil, err
				}
				return []*rtp.Packet{pkt}, nil
			}, e.Init()
		},
		NewDecoder: func(Params) (DecodeFunc, error) {
			d := &rtpsimpleaudio.Decoder{}
			return blobDec(d.Decode), d.Init()
		},
		Gen: func(r *rand.Rand, _ Params, sizes []int, counter uint64) [][]byte {
			u := randBytes(r, max(sum(sizes), 1))
			putCounter(u, counter)
			return [][]byte{u}
		},
		IsMore: neverMore,
	})
}

// genTable builds frames of header-dictated length: nearest legal size, PRNG header among those
// of that size, PRNG body, counter after the header.
func genTable(r *rand.Rand, t *hdrTable, hdrLen int, sizes []int, counter uint64) [][]byte {
	fr := make([][]byte, len(sizes))
	k := largest(sizes)
	for i, n := range sizes {
		j := sort.SearchInts(t.sizes, n)
		switch {
		case j == len(t.sizes):
			j--
		case j > 0 && n-t.sizes[j-1] <= t.sizes[j]-n:
			j--
		}
		sz := t.sizes[j]
		hs := t.hdrs[sz]
		u := randBytes(r, sz)
		if i == k {
			putCounter(u[hdrLen:], counter)
		}
		copy(u, hs[r.Intn(len(hs))]) // MPEG audio: 3 bytes (byte 3 = channel mode .. emphasis stays PRNG)
		if hdrLen == 5 {             // AC-3: PRNG crc1, bsid 8 + PRNG bsmod
			u[2], u[3], u[5] = byte(r.Intn(256)), byte(r.Intn(256)), 8<<3|byte(r.Intn(8))
		}
		fr[i] = u
	}
	return fr
}

func itoa(v int) string {
	if v >= 10 {
		return itoa(v/10) + string(rune('0'+v%10))
	}
	return string(rune('0' + v%10))
}
