// Package codecs holds one adapter per RTP payload format pair of gortsplib (pkg/format/rtp*):
// a uniform way to create encoders / decoders, a valid-frame grammar taken from each encoder's
// documented preconditions, and the metadata generic checks need (oracle family, thresholds at
// which the encoder changes strategy, smallest workable payload limit, documented maxima).
// It is shared by C03, C06, C07 and C08.
//
// A frame is always a list of units ([][]byte). Formats whose library frame is a single []byte
// (Blob) use exactly one unit; for two of them (MPEG-1 video: slices, KLV "multi-item": KLV items)
// the size vector given to Gen describes the sub-units the blob is made of.
package codecs

import (
	"math/rand"
	"sort"

	"github.com/pion/rtp"
)

// Family selects the round-trip oracle (DESIGN C03 O).
type Family int

const (
	// WholeFrame : ErrMorePacketsNeeded before the completing packet, the whole frame at it.
	WholeFrame Family = iota
	// Stateless : no "more packets" notion; every packet decodes on its own; the concatenation of
	// the outputs of one Encode call equals the input (unit boundaries preserved).
	Stateless
	// AudioGroup : every packet that completes a unit returns a sub-group; the flattened outputs
	// of one Encode call equal the input units one by one.
	AudioGroup
)

func (f Family) String() string { return [...]string{"whole-frame", "stateless", "audio-group"}[f] }

// Params are the per-format parameters (JSON-able, part of witnesses).
type Params struct {
	Label            string `json:"label"`
	SizeLength       int    `json:"size_length,omitempty"`
	IndexLength      int    `json:"index_length,omitempty"`
	IndexDeltaLength int    `json:"index_delta_length,omitempty"`
	BitDepth         int    `json:"bit_depth,omitempty"`
	Channels         int    `json:"channels,omitempty"`
	Variant          string `json:"variant,omitempty"` // grammar variant (vp9: key|inter, klv: multi)
}

// EncConf configures a fresh encoder.
type EncConf struct {
	PayloadMaxSize        int
	SSRC                  uint32
	InitialSequenceNumber uint16
	PayloadType           uint8 // ignored by formats with a mandated static type
}

// EncodeFunc / DecodeFunc wrap the differently typed Encode / Decode methods.
type (
	EncodeFunc func(frame [][]byte) ([]*rtp.Packet, error)
	DecodeFunc func(pkt *rtp.Packet) ([][]byte, error)
)

// Strategy describes how an encoder packs units as a function of the payload limit.
type Strategy struct {
	Single     int // largest unit sent unfragmented when alone in its packet
	FragFirst  int // unit bytes carried by the first fragment
	FragNext   int // unit bytes carried by every following fragment
	AggFixed   int // an aggregated packet holds units while AggFixed + sum(AggPerUnit+len) <= limit
	AggPerUnit int // (AggFixed == 0 && AggPerUnit == 0: the format never aggregates)
}

// Format is one adapter.
type Format struct {
	Name     string // package name (rtph264 ...)
	Stateful bool   // decoder keeps inter-packet state (the 12 decoders of C07)
	Video    bool   // marker only on the last packet of a frame
	Family   Family
	Blob     bool // library frame is one []byte: Gen returns exactly one unit
	FixedPT  int  // mandated static payload type, -1 if configurable
	// LimitBound: the encoder splits frames so that payloads respect PayloadMaxSize (everything
	// except rtpsimpleaudio, which by contract emits exactly one packet per frame).
	LimitBound bool
	// MarkerEndsFrame: the format uses the marker bit to flag the packet completing a frame
	// (false for LPCM / simple audio / MPEG-TS whose RTP profiles give the marker another meaning).
	MarkerEndsFrame bool
	MaxFrameSize    int // documented / wire maximum of a returned frame in bytes (C08)
	MaxUnits        int // most units per frame the decoder accepts (0 = no cap)
	FixedUnit       int // every unit has exactly this size (MPEG-TS: 188), 0 otherwise
	Grammar         string
	Params          []Params

	MinLimit    func(p Params) int             // smallest workable PayloadMaxSize
	MinUnit     func(p Params) int             // smallest valid unit
	MaxUnitSize func(p Params) int             // largest valid unit (0 = bounded by MaxFrameSize only)
	LegalSizes  func(p Params) []int           // nil: any size >= MinUnit; else the sorted legal unit sizes
	Strategy    func(p Params, m int) Strategy // see Strategy
	Extra       func(p Params, m int) []int    // further interesting unit sizes
	NewEncoder  func(p Params, c EncConf) (EncodeFunc, error)
	NewDecoder  func(p Params) (DecodeFunc, error)
	// Gen returns a valid frame whose units have (as nearly as the grammar allows) the given sizes.
	// counter != 0 is embedded in the content so that frames are distinguishable. Deterministic in
	// (state of r, p, sizes, counter).
	Gen    func(r *rand.Rand, p Params, sizes []int, counter uint64) [][]byte
	IsMore func(err error) bool
	// Same compares an input unit with a decoded unit; nil = bytes.Equal. class names the difference.
	Same func(in, out []byte) (ok bool, class string)
}

var registry []*Format

func register(f *Format) {
	if f.MaxUnitSize == nil {
		f.MaxUnitSize = func(Params) int { return 0 }
	}
	if f.Extra == nil {
		f.Extra = func(Params, int) []int { return nil }
	}
	registry = append(registry, f)
}

// All returns the 15 adapters sorted by name.
func All() []*Format {
	out := append([]*Format(nil), registry...)
	sort.Slice(out, func(i, j int) bool { return out[i].Name < out[j].Name })
	return out
}

// ByName returns the adapter of a package name (nil if unknown).
func ByName(n string) *Format {
	for _, f := range registry {
		if f.Name == n {
			return f
		}
	}
	return nil
}

// ParamsByLabel finds a parameter set.
func (f *Format) ParamsByLabel(l string) (Params, bool) {
	for _, p := range f.Params {
		if p.Label == l {
			return p, true
		}
	}
	return Params{}, false
}

// Fit maps a requested unit size to the nearest valid one.
func (f *Format) Fit(p Params, n int) int {
	if f.FixedUnit != 0 {
		return f.FixedUnit
	}
	if f.LegalSizes != nil {
		ls := f.LegalSizes(p)
		i := sort.SearchInts(ls, n)
		switch {
		case i == 0:
			return ls[0]
		case i == len(ls):
			return ls[len(ls)-1]
		case ls[i]-n < n-ls[i-1]:
			return ls[i]
		}
		return ls[i-1]
	}
	if mn := f.MinUnit(p); n < mn {
		n = mn
	}
	if mx := f.MaxUnitSize(p); mx > 0 && n > mx {
		n = mx
	}
	return n
}

// Thresholds lists the unit sizes around which the encoder changes strategy for limit m: the
// largest single-packet unit, unit sizes filling exactly 1..4 fragments, the per-unit share of an
// aggregated packet holding 2..4 equal units, the remainder next to a minimal unit, plus the
// format's extras (LEB128 growth, AU-size field width ...). Only valid (fitted, > 0) sizes.
func (f *Format) Thresholds(p Params, m int) []int {
	s := f.Strategy(p, m)
	var t []int
	if s.Single > 0 {
		t = append(t, s.Single)
	}
	if s.FragFirst > 0 {
		for k := 0; k <= 3; k++ {
			t = append(t, s.FragFirst+k*s.FragNext)
		}
	}
	if s.AggFixed+s.AggPerUnit > 0 {
		mn := f.MinUnit(p)
		for n := 2; n <= 4; n++ {
			room := m - s.AggFixed - n*s.AggPerUnit
			t = append(t, room/n, room-(n-1)*mn)
		}
	}
	for _, e := range f.Extra(p, m) {
		// extras that would need very many fragments at this limit are swept alone (see Sweep), not
		// combined with everything else
		if s.FragNext <= 0 || e <= 40*s.FragNext {
			t = append(t, e)
		}
	}
	seen := map[int]bool{}
	var out []int
	for _, v := range t {
		if v <= 0 {
			continue
		}
		v = f.Fit(p, v)
		if !seen[v] {
			seen[v] = true
			out = append(out, v)
		}
	}
	sort.Ints(out)
	return out
}

// Sizes returns the actual unit sizes of a generated frame.
func Sizes(frame [][]byte) []int {
	out := make([]int, len(frame))
	for i, u := range frame {
		out[i] = len(u)
	}
	return out
}

// ---------------------------------------------------------------------------------------------
// cheap deterministic randomness

type splitmix struct{ s uint64 }

func (s *splitmix) Uint64() uint64 {
	s.s += 0x9e3779b97f4a7c15
	z := s.s
	z = (z ^ (z >> 30)) * 0xbf58476d1ce4e5b9
	z = (z ^ (z >> 27)) * 0x94d049bb133111eb
	return z ^ (z >> 31)
}
func (s *splitmix) Int63() int64    { return int64(s.Uint64() >> 1) }
func (s *splitmix) Seed(seed int64) { s.s = uint64(seed) }

// NewRand returns a PRNG that is cheap to seed (splitmix64), for one-PRNG-per-case use.
func NewRand(seed uint64) *rand.Rand { return rand.New(&splitmix{s: seed}) }

// pool is a fixed block of PRNG bytes (independent of VERIF_SEED) frames are cut from.
var pool = func() []byte {
	b := make([]byte, 1<<20)
	s := &splitmix{s: 0x5eed}
	for i := 0; i < len(b); i += 8 {
		v := s.Uint64()
		for k := 0; k < 8; k++ {
			b[i+k] = byte(v >> (8 * k))
		}
	}
	return b
}()

// Fill writes PRNG bytes (a window of the pool chosen by r) into b.
func Fill(r *rand.Rand, b []byte) {
	for len(b) > 0 {
		n := len(b)
		if n > len(pool)/2 {
			n = len(pool) / 2
		}
		off := r.Intn(len(pool) - n)
		copy(b[:n], pool[off:])
		b = b[n:]
	}
}

func randBytes(r *rand.Rand, n int) []byte {
	b := make([]byte, n)
	Fill(r, b)
	return b
}

// putCounter writes c as up to 10 bytes 0x80|7 bits (never 0x00, never 0xFF, so it is legal
// inside every grammar here) at b and returns the number of bytes written.
func putCounter(b []byte, c uint64) int {
	if c == 0 {
		return 0
	}
	n := 0
	for ; n < 10 && n < len(b); n++ {
		b[n] = 0x80 | byte(c>>(7*n))&0x7f
		if b[n] == 0xff {
			b[n] = 0xfe // 0x7f group: keep the byte away from 0xFF; bit 0 of the group is lost
		}
	}
	return n
}

// largest returns the index of the largest size.
func largest(sizes []int) int {
	k := 0
	for i, s := range sizes {
		if s > sizes[k] {
			k = i
		}
	}
	return k
}

// noStartCode removes 00 00 0x (x<=3) patterns (what an emulation-prevented NAL unit / an MPEG
// video unit body cannot contain) from b[from:] and makes the last byte non-zero.
func noStartCode(b []byte, from int) {
	for i := from; i < len(b); i++ {
		if i >= 2 && b[i-2] == 0 && b[i-1] == 0 && b[i] <= 3 {
			b[i] |= 0x44
		}
	}
	if n := len(b); n > from && b[n-1] == 0 {
		b[n-1] = 0x80
	}
}

func constInt(v int) func(Params) int { return func(Params) int { return v } }

func neverMore(error) bool { return false }

func blobEnc(enc func([]byte) ([]*rtp.Packet, error)) EncodeFunc {
	return func(fr [][]byte) ([]*rtp.Packet, error) { return enc(fr[0]) }
}

func blobDec(dec func(*rtp.Packet) ([]byte, error)) DecodeFunc {
	return func(pkt *rtp.Packet) ([][]byte, error) {
		b, err := dec(pkt)
		if err != nil || b == nil {
			return nil, err
		}
		return [][]byte{b}, nil
	}
}

func sum(xs []int) int {
	n := 0
	for _, x := range xs {
		n += x
	}
	return n
}
