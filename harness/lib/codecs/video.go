package codecs

import (
	"errors"
	"math/rand"

	"github.com/bluenviron/gortsplib/v5/pkg/format/rtpav1"
	"github.com/bluenviron/gortsplib/v5/pkg/format/rtpfragmented"
	"github.com/bluenviron/gortsplib/v5/pkg/format/rtph264"
	"github.com/bluenviron/gortsplib/v5/pkg/format/rtph265"
	"github.com/bluenviron/gortsplib/v5/pkg/format/rtpmpeg1video"
	"github.com/bluenviron/gortsplib/v5/pkg/format/rtpvp8"
	"github.com/bluenviron/gortsplib/v5/pkg/format/rtpvp9"
)

var one = []Params{{Label: "default"}}

func init() {
	// ---- H264 (RFC 6184, packetization-mode 1): single NALU / STAP-A / FU-A
	register(&Format{
		Name: "rtph264", Stateful: true, Video: true, Family: WholeFrame, FixedPT: -1, LimitBound: true,
		MarkerEndsFrame: true, MaxFrameSize: 8 << 20, MaxUnits: 50, Params: one,
		Grammar: "access unit = 1..50 NAL units; header byte: forbidden_zero_bit 0, nal_ref_idc any, type 1..23; " +
			"body without 00 00 0x (x<=3) (emulation-prevented), last byte non-zero",
		MinLimit: constInt(3), MinUnit: constInt(1),
		Strategy: func(_ Params, m int) Strategy {
			return Strategy{Single: m - 1, FragFirst: 1 + (m - 2), FragNext: m - 2, AggFixed: 1, AggPerUnit: 2}
		},
		NewEncoder: func(_ Params, c EncConf) (EncodeFunc, error) {
			e := &rtph264.Encoder{PayloadType: c.PayloadType, SSRC: &c.SSRC, InitialSequenceNumber: &c.InitialSequenceNumber,
				PayloadMaxSize: c.PayloadMaxSize, PacketizationMode: 1}
			return e.Encode, e.Init()
		},
		NewDecoder: func(Params) (DecodeFunc, error) {
			d := &rtph264.Decoder{PacketizationMode: 1}
			return d.Decode, d.Init()
		},
		Gen: func(r *rand.Rand, _ Params, sizes []int, counter uint64) [][]byte {
			fr := make([][]byte, len(sizes))
			k := largest(sizes)
			for i, n := range sizes {
				u := randBytes(r, max(n, 1))
				if i == k && len(u) > 1 {
					putCounter(u[1:], counter)
				}
				u[0] = byte(r.Intn(4))<<5 | byte(1+r.Intn(23))
				noStartCode(u, 1)
				fr[i] = u
			}
			return fr
		},
		IsMore: func(err error) bool { return errors.Is(err, rtph264.ErrMorePacketsNeeded) },
	})

	// ---- H265 (RFC 7798): single NALU / aggregation packet / fragmentation units
	register(&Format{
		Name: "rtph265", Stateful: true, Video: true, Family: WholeFrame, FixedPT: -1, LimitBound: true,
		MarkerEndsFrame: true, MaxFrameSize: 8 << 20, MaxUnits: 21, Params: one,
		Grammar: "access unit = 1..21 NAL units of >= 2 bytes; 2-byte header: forbidden_zero_bit 0, type 0..47, layer id 0..63, " +
			"temporal_id_plus1 1..7; body without 00 00 0x (x<=3), last byte non-zero",
		MinLimit: constInt(4), MinUnit: constInt(2),
		Strategy: func(_ Params, m int) Strategy {
			return Strategy{Single: m - 1, FragFirst: 2 + (m - 3), FragNext: m - 3, AggFixed: 2, AggPerUnit: 2}
		},
		NewEncoder: func(_ Params, c EncConf) (EncodeFunc, error) {
			e := &rtph265.Encoder{PayloadType: c.PayloadType, SSRC: &c.SSRC, InitialSequenceNumber: &c.InitialSequenceNumber,
				PayloadMaxSize: c.PayloadMaxSize}
			return e.Encode, e.Init()
		},
		NewDecoder: func(Params) (DecodeFunc, error) {
			d := &rtph265.Decoder{}
			return d.Decode, d.Init()
		},
		Gen: func(r *rand.Rand, _ Params, sizes []int, counter uint64) [][]byte {
			fr := make([][]byte, len(sizes))
			k := largest(sizes)
			for i, n := range sizes {
				u := randBytes(r, max(n, 2))
				if i == k && len(u) > 2 {
					putCounter(u[2:], counter)
				}
				layer := byte(r.Intn(64))
				u[0] = byte(r.Intn(48))<<1 | layer>>5
				u[1] = (layer&0x1f)<<3 | byte(1+r.Intn(7))
				noStartCode(u, 2)
				fr[i] = u
			}
			return fr
		},
		IsMore: func(err error) bool { return errors.Is(err, rtph265.ErrMorePacketsNeeded) },
	})

	// ---- AV1 (RTP payload format for AV1 v1.0): aggregation header Z/Y/W/N + LEB128 element sizes
	register(&Format{
		Name: "rtpav1", Stateful: true, Video: true, Family: WholeFrame, FixedPT: -1, LimitBound: true,
		MarkerEndsFrame: true, MaxFrameSize: 3 << 20, MaxUnits: 10, Params: one,
		Grammar: "temporal unit = 1..10 OBUs; header byte: forbidden bit 0, type in {1,3,4,5,6,7,8,15}, extension_flag 0, " +
			"has_size_field 0, reserved 0; arbitrary body (no temporal delimiters)",
		MinLimit: constInt(3), MinUnit: constInt(1),
		Strategy: func(_ Params, m int) Strategy {
			lebM := 1
			if m >= 128 {
				lebM = 2
			}
			// a lone (= last) OBU carries no size field: m-1 bytes per packet; a non-last OBU is cut into
			// pieces of avail - LEB128Size(m); element overhead of an aggregated OBU: 1 (LEB128 < 128)
			return Strategy{Single: m - 1, FragFirst: m - 1 - lebM, FragNext: m - 1 - lebM, AggFixed: 1, AggPerUnit: 1}
		},
		Extra: func(_ Params, m int) []int { return []int{127, 128, m - 1 - 2, 2 * (m - 1), 3 * (m - 1)} },
		NewEncoder: func(_ Params, c EncConf) (EncodeFunc, error) {
			e := &rtpav1.Encoder{PayloadType: c.PayloadType, SSRC: &c.SSRC, InitialSequenceNumber: &c.InitialSequenceNumber,
				PayloadMaxSize: c.PayloadMaxSize}
			return e.Encode, e.Init()
		},
		NewDecoder: func(Params) (DecodeFunc, error) {
			d := &rtpav1.Decoder{}
			return d.Decode, d.Init()
		},
		Gen: func(r *rand.Rand, _ Params, sizes []int, counter uint64) [][]byte {
			types := [...]byte{1, 3, 4, 5, 6, 7, 8, 15}
			fr := make([][]byte, len(sizes))
			k := largest(sizes)
			for i, n := range sizes {
				u := randBytes(r, max(n, 1))
				if i == k && len(u) > 1 {
					putCounter(u[1:], counter)
				}
				u[0] = types[r.Intn(len(types))] << 3
				fr[i] = u
			}
			return fr
		},
		IsMore: func(err error) bool { return errors.Is(err, rtpav1.ErrMorePacketsNeeded) },
	})

	// ---- VP8 (RFC 7741) through pion's payloader: 1-byte descriptor, S bit on the first packet
	register(&Format{
		Name: "rtpvp8", Stateful: true, Video: true, Family: WholeFrame, Blob: true, FixedPT: -1, LimitBound: true,
		MarkerEndsFrame: true, MaxFrameSize: 2 << 20, Params: one,
		Grammar: "frame = 3-byte frame tag (key/inter, version, show_frame, first partition size) [+ 9d 01 2a + 14-bit " +
			"width/height for key frames of >= 10 bytes] + PRNG tail; frames shorter than the tag are PRNG bytes",
		MinLimit: constInt(2), MinUnit: constInt(1),
		Strategy: func(_ Params, m int) Strategy { return Strategy{Single: m - 1, FragFirst: m - 1, FragNext: m - 1} },
		NewEncoder: func(_ Params, c EncConf) (EncodeFunc, error) {
			e := &rtpvp8.Encoder{PayloadType: c.PayloadType, SSRC: &c.SSRC, InitialSequenceNumber: &c.InitialSequenceNumber,
				PayloadMaxSize: c.PayloadMaxSize}
			return blobEnc(e.Encode), e.Init()
		},
		NewDecoder: func(Params) (DecodeFunc, error) {
			d := &rtpvp8.Decoder{}
			return blobDec(d.Decode), d.Init()
		},
		Gen: func(r *rand.Rand, _ Params, sizes []int, counter uint64) [][]byte {
			u := randBytes(r, max(sum(sizes), 1))
			n := len(u)
			if n >= 3 {
				part := uint32(r.Intn(1 << 19))
				tag := part<<5 | 1<<4 | uint32(r.Intn(4))<<1 | 1 // inter frame
				hdr := 3
				if n >= 10 && r.Intn(2) == 0 {
					tag &^= 1 // key frame
					copy(u[3:], []byte{0x9d, 0x01, 0x2a, byte(r.Intn(256)), byte(r.Intn(64)), byte(r.Intn(256)), byte(r.Intn(64))})
					hdr = 10
				}
				u[0], u[1], u[2] = byte(tag), byte(tag>>8), byte(tag>>16)
				putCounter(u[hdr:], counter)
			}
			return [][]byte{u}
		},
		IsMore: func(err error) bool { return errors.Is(err, rtpvp8.ErrMorePacketsNeeded) },
	})

	// ---- VP9 (RFC 9628) through pion's payloader (non-flexible mode): it parses the uncompressed
	// header; key frames get an 8-byte scalability structure in their first packet
	register(&Format{
		Name: "rtpvp9", Stateful: true, Video: true, Family: WholeFrame, Blob: true, FixedPT: -1, LimitBound: true,
		MarkerEndsFrame: true, MaxFrameSize: 2 << 20,
		Params: []Params{{Label: "inter", Variant: "inter"}, {Label: "key", Variant: "key"}, {Label: "show-existing", Variant: "show"}},
		Grammar: "frame = parseable uncompressed header (frame_marker 2, profile 0, show_existing_frame 0; key frames: sync code " +
			"49 83 42, color_space 0..6, 16-bit width/height minus 1 = 9 bytes; inter frames: 1 byte) + PRNG tail; show-existing = the " +
			"1-byte show_existing_frame header. pion's payloader puts an 8-byte scalability structure into the first packet of every " +
			"frame that is not an inter frame, hence their smallest workable limit of 12",
		MinLimit: func(p Params) int {
			if p.Variant != "inter" {
				return 12
			}
			return 4
		},
		MaxUnitSize: func(p Params) int {
			if p.Variant == "show" {
				return 1
			}
			return 0
		},
		MinUnit: func(p Params) int {
			if p.Variant == "key" {
				return 9
			}
			return 1
		},
		Strategy: func(p Params, m int) Strategy {
			if p.Variant != "inter" {
				return Strategy{Single: m - 11, FragFirst: m - 11, FragNext: m - 3}
			}
			return Strategy{Single: m - 3, FragFirst: m - 3, FragNext: m - 3}
		},
		NewEncoder: func(_ Params, c EncConf) (EncodeFunc, error) {
			pid := uint16(c.SSRC) ^ c.InitialSequenceNumber
			e := &rtpvp9.Encoder{PayloadType: c.PayloadType, SSRC: &c.SSRC, InitialSequenceNumber: &c.InitialSequenceNumber,
				PayloadMaxSize: c.PayloadMaxSize, InitialPictureID: &pid}
			return blobEnc(e.Encode), e.Init()
		},
		NewDecoder: func(Params) (DecodeFunc, error) {
			d := &rtpvp9.Decoder{}
			return blobDec(d.Decode), d.Init()
		},
		Gen: func(r *rand.Rand, p Params, sizes []int, counter uint64) [][]byte {
			n := max(sum(sizes), 1)
			if p.Variant == "key" {
				n = max(n, 9)
			}
			if p.Variant == "show" {
				return [][]byte{{0x88 | byte((counter+uint64(r.Intn(8)))&7)}} // show_existing_frame + frame_to_show_map_idx
			}
			u := randBytes(r, n)
			flags := byte(r.Intn(4)) // show_frame, error_resilient_mode
			if p.Variant == "key" {
				w, h := uint32(r.Intn(4096)), uint32(r.Intn(4096)) // width / height minus 1
				cs := uint32(r.Intn(7))
				u[0] = 0x80 | flags // frame_type 0
				u[1], u[2], u[3] = 0x49, 0x83, 0x42
				// color_space(3) color_range(1) width-1(16) height-1(16) = 36 bits, rest of byte 8 is PRNG
				v := uint64(cs)<<33 | uint64(r.Intn(2))<<32 | uint64(w)<<16 | uint64(h)
				for i := 0; i < 4; i++ {
					u[4+i] = byte(v >> (28 - 8*i))
				}
				u[8] = byte(v<<4) | u[8]&0x0f
				putCounter(u[9:], counter)
			} else {
				u[0] = 0x84 | flags // frame_type 1 (non key)
				putCounter(u[1:], counter)
			}
			return [][]byte{u}
		},
		IsMore: func(err error) bool { return errors.Is(err, rtpvp9.ErrMorePacketsNeeded) },
	})

	// ---- generic fragmenter (MPEG-4 video, MPEG-4 audio LATM): frame cut into limit-sized pieces
	register(&Format{
		Name: "rtpfragmented", Stateful: true, Video: true, Family: WholeFrame, Blob: true, FixedPT: -1, LimitBound: true,
		MarkerEndsFrame: true, MaxFrameSize: 1 << 20, Params: one,
		Grammar:  "frame = any non-empty byte string (MPEG-4 visual object / LATM AudioMuxElement are opaque to the packetizer)",
		MinLimit: constInt(1), MinUnit: constInt(1),
		Strategy: func(_ Params, m int) Strategy { return Strategy{Single: m, FragFirst: m, FragNext: m} },
		NewEncoder: func(_ Params, c EncConf) (EncodeFunc, error) {
			e := &rtpfragmented.Encoder{PayloadType: c.PayloadType, SSRC: &c.SSRC, InitialSequenceNumber: &c.InitialSequenceNumber,
				PayloadMaxSize: c.PayloadMaxSize}
			return blobEnc(e.Encode), e.Init()
		},
		NewDecoder: func(Params) (DecodeFunc, error) {
			d := &rtpfragmented.Decoder{}
			return blobDec(d.Decode), d.Init()
		},
		Gen: func(r *rand.Rand, _ Params, sizes []int, counter uint64) [][]byte {
			u := randBytes(r, max(sum(sizes), 1))
			putCounter(u, counter)
			return [][]byte{u}
		},
		IsMore: func(err error) bool { return errors.Is(err, rtpfragmented.ErrMorePacketsNeeded) },
	})

	// ---- MPEG-1/2 video (RFC 2250): the frame is cut at start codes into "slices" which are
	// aggregated / fragmented individually; the size vector gives the slice sizes
	register(&Format{
		Name: "rtpmpeg1video", Stateful: true, Video: true, Family: WholeFrame, Blob: true, FixedPT: 32, LimitBound: true,
		MarkerEndsFrame: true, MaxFrameSize: 1 << 20, Params: one,
		Grammar: "frame = [sequence header B3, GOP header B8] picture header 00 (>= 6 bytes), slices 01..AF; every unit = " +
			"00 00 01 code + body (>= 4 bytes in all) without 00 00 0x (x<=3), last byte non-zero; size vector = unit sizes",
		MinLimit: constInt(5), MinUnit: constInt(4),
		Strategy: func(_ Params, m int) Strategy {
			return Strategy{Single: m - 5, FragFirst: m - 4, FragNext: m - 4, AggFixed: 4}
		},
		NewEncoder: func(_ Params, c EncConf) (EncodeFunc, error) {
			e := &rtpmpeg1video.Encoder{SSRC: &c.SSRC, InitialSequenceNumber: &c.InitialSequenceNumber, PayloadMaxSize: c.PayloadMaxSize}
			return blobEnc(e.Encode), e.Init()
		},
		NewDecoder: func(Params) (DecodeFunc, error) {
			d := &rtpmpeg1video.Decoder{}
			return blobDec(d.Decode), d.Init()
		},
		Gen: func(r *rand.Rand, _ Params, sizes []int, counter uint64) [][]byte {
			var out []byte
			pic := 0 // index of the picture header
			if len(sizes) >= 4 && r.Intn(2) == 0 {
				pic = 2
			}
			k := largest(sizes)
			for i, n := range sizes {
				n = max(n, 4)
				var code byte
				switch {
				case i < pic:
					code = [...]byte{0xB3, 0xB8}[i]
				case i == pic:
					code, n = 0x00, max(n, 6)
				default:
					code = byte(1 + (i-pic-1)%0xAF)
				}
				u := randBytes(r, n)
				if i == k && n > 6 {
					putCounter(u[6:], counter)
				}
				copy(u, []byte{0, 0, 1, code})
				if n > 4 && u[4] == 0 {
					u[4] = 0x10 // (code 00 followed by 00 would start a zero run)
				}
				noStartCode(u, 4)
				out = append(out, u...)
			}
			return [][]byte{out}
		},
		IsMore: func(err error) bool { return errors.Is(err, rtpmpeg1video.ErrMorePacketsNeeded) },
	})
}
