package codecs

import (
	"math/rand"
	"sort"
)

// Multi reports whether frames of (f, p) can hold more than one unit (for Blob formats: sub-units).
func (f *Format) Multi(p Params) bool {
	switch f.Name {
	case "rtpmpeg1video":
		return true
	case "rtpklv":
		return p.Variant == "multi"
	}
	return !f.Blob
}

// UnitCap is the largest number of units per frame worth generating.
func (f *Format) UnitCap(p Params) int {
	if !f.Multi(p) {
		return 1
	}
	if f.MaxUnits > 0 {
		return f.MaxUnits
	}
	return 12
}

// Limits lists the payload limits of the systematic sweep: every value from the smallest workable
// one to 64 (at least 25 values), the classic MTU-derived values, and limits placed around the
// legal unit sizes of formats whose unit sizes are discrete.
func (f *Format) Limits(p Params) []int {
	lo := f.MinLimit(p)
	seen := map[int]bool{}
	var out []int
	add := func(m int) {
		if m >= lo && m <= 4000 && !seen[m] {
			seen[m] = true
			out = append(out, m)
		}
	}
	for m := lo; m <= max(64, lo+24); m++ {
		add(m)
	}
	for _, m := range []int{100, 127, 128, 129, 255, 256, 500, 1000, 1200, 1316, 1450, 1460, 1472, 2000} {
		add(m)
	}
	if f.FixedUnit != 0 {
		for k := 2; k <= 8; k++ {
			add(k*f.FixedUnit - 1)
			add(k * f.FixedUnit)
			add(k*f.FixedUnit + 1)
		}
	}
	if f.LegalSizes != nil {
		s := f.Strategy(p, 1000)
		hdr := 1000 - s.FragFirst // payload header bytes
		ls := f.LegalSizes(p)
		for i := 0; i < len(ls); i += 5 {
			for d := -2; d <= 2; d++ {
				add(ls[i] + hdr + d)
			}
		}
	}
	sort.Ints(out)
	return out
}

// Depth scales the systematic sweep.
type Depth struct {
	Exh1       int    // exhaustive single-unit sizes MinUnit..3m+8 while m <= max(64, MinLimit+Exh1)
	Exh2, Max2 int    // all pairs of sizes MinUnit..Max2(m) while m-MinLimit <= Exh2
	Exh3, Max3 int    // all triples while m-MinLimit <= Exh3; Max2/Max3: 0 = m+6, 1 = 2m+4, 2 = 3m
	Win        [5]int // half-width of the window around each threshold, per number of units (index 1..4)
	Pos3, Pos4 bool   // put the near-threshold unit at every position (else rotate)
	Wide3      bool   // 3 units: both companions from the full threshold list (else one from the short list)
}

// QuickDepth / ThoroughDepth are the two tiers.
var (
	QuickDepth    = Depth{Exh1: 24, Exh2: 10, Max2: 1, Exh3: 3, Max3: 0, Win: [5]int{0, 8, 8, 2, 1}}
	ThoroughDepth = Depth{Exh1: 24, Exh2: 60, Max2: 2, Exh3: 20, Max3: 1, Win: [5]int{0, 8, 8, 8, 3}, Pos3: true, Pos4: true, Wide3: true}
)

func span(kind, m int) int {
	switch kind {
	case 0:
		return m + 6
	case 1:
		return 2*m + 4
	}
	return 3 * m
}

// alphabet returns the distinct fitted sizes of lo..hi.
func (f *Format) alphabet(p Params, lo, hi int) []int {
	seen := map[int]bool{}
	var out []int
	for n := lo; n <= hi; n++ {
		v := f.Fit(p, n)
		if !seen[v] {
			seen[v] = true
			out = append(out, v)
		}
	}
	sort.Ints(out)
	return out
}

// Sweep enumerates the systematic unit-size vectors for (f, p, m): emit is called with a slice that
// is reused between calls. The enumeration depends on (f, p, m, d) only.
func (f *Format) Sweep(p Params, m int, d Depth, emit func(sizes []int)) {
	buf := make([]int, 0, 8)
	lo := f.MinLimit(p)
	mn := f.MinUnit(p)

	if f.FixedUnit != 0 { // MPEG-TS: only the unit count varies
		per := max(m/f.FixedUnit, 1)
		for n := 1; n <= min(4*per+2, 60); n++ {
			buf = buf[:0]
			for i := 0; i < n; i++ {
				buf = append(buf, f.FixedUnit)
			}
			emit(buf)
		}
		return
	}

	// 1 unit, exhaustive
	if m <= max(64, lo+d.Exh1) {
		for _, a := range f.alphabet(p, mn, 3*m+8) {
			emit(append(buf[:0], a))
		}
	}
	if f.LegalSizes != nil {
		for _, a := range f.LegalSizes(p) {
			emit(append(buf[:0], a))
		}
	}
	for _, e := range f.Extra(p, m) {
		if e > 0 {
			emit(append(buf[:0], f.Fit(p, e)))
		}
	}
	th := f.Thresholds(p, m)
	near := func(w int) []int {
		seen := map[int]bool{}
		var out []int
		for _, t := range th {
			for v := t - w; v <= t+w; v++ {
				if v >= 1 {
					if x := f.Fit(p, v); !seen[x] {
						seen[x] = true
						out = append(out, x)
					}
				}
			}
		}
		sort.Ints(out)
		return out
	}
	for _, a := range near(d.Win[1]) {
		emit(append(buf[:0], a))
	}
	if !f.Multi(p) {
		return
	}
	ucap := f.UnitCap(p)

	// 2 and 3 units, exhaustive for small limits
	if m-lo <= d.Exh2 {
		al := f.alphabet(p, mn, span(d.Max2, m))
		for _, a := range al {
			for _, b := range al {
				emit(append(buf[:0], a, b))
			}
		}
	}
	if m-lo <= d.Exh3 && ucap >= 3 {
		al := f.alphabet(p, mn, span(d.Max3, m))
		for _, a := range al {
			for _, b := range al {
				for _, c := range al {
					emit(append(buf[:0], a, b, c))
				}
			}
		}
	}

	// threshold windows combined with the exact thresholds and the minimal unit
	t0 := append([]int{f.Fit(p, mn)}, th...)
	s := f.Strategy(p, m)
	t0s := []int{f.Fit(p, mn), f.Fit(p, max(s.Single, 1))}
	if s.AggFixed+s.AggPerUnit > 0 {
		t0s = append(t0s, f.Fit(p, max((m-s.AggFixed-4*s.AggPerUnit)/4, 1)), f.Fit(p, max((m-s.AggFixed-3*s.AggPerUnit)/3, 1)))
	}
	rot := 0
	for _, a := range near(d.Win[2]) {
		for _, b := range t0 {
			emit(append(buf[:0], a, b))
			emit(append(buf[:0], b, a))
		}
	}
	if ucap >= 3 {
		t3 := t0s
		if d.Wide3 {
			t3 = t0
		}
		for _, a := range near(d.Win[3]) {
			for _, b := range t0 {
				for _, c := range t3 {
					v := [3]int{b, c, a}
					for k := 0; k < 3; k++ {
						if d.Pos3 || k == rot%3 {
							emit(append(buf[:0], v[k%3], v[(k+1)%3], v[(k+2)%3]))
						}
					}
					rot++
				}
			}
		}
	}
	if ucap >= 4 {
		for _, a := range near(d.Win[4]) {
			for _, b := range t0s {
				for _, c := range t0s {
					for e := range t0s {
						v := [4]int{b, c, t0s[e], a}
						for k := 0; k < 4; k++ {
							if d.Pos4 || k == rot%4 {
								emit(append(buf[:0], v[k%4], v[(k+1)%4], v[(k+2)%4], v[(k+3)%4]))
							}
						}
						rot++
					}
				}
			}
		}
	}
	// many minimal / small units (aggregation counters, unit caps)
	for _, n := range []int{5, 8, ucap} {
		if n <= ucap {
			for _, a := range []int{mn, t0s[len(t0s)-1]} {
				buf = buf[:0]
				for i := 0; i < n; i++ {
					buf = append(buf, f.Fit(p, a))
				}
				emit(buf)
			}
		}
	}
}

// SampleSizes draws a PRNG unit-size vector for limit m: mixes threshold neighbourhoods, small
// units, sizes up to 3m and occasional units of several limits.
func (f *Format) SampleSizes(r *rand.Rand, p Params, m int) []int {
	n := 1
	if f.Multi(p) {
		switch c := f.UnitCap(p); r.Intn(4) {
		case 0:
			n = 1
		case 1, 2:
			n = 1 + r.Intn(min(c, 4))
		default:
			n = 1 + r.Intn(c)
		}
	}
	if f.FixedUnit != 0 {
		n = 1 + r.Intn(3*max(m/f.FixedUnit, 1)+3)
	}
	th := f.Thresholds(p, m)
	out := make([]int, n)
	for i := range out {
		var v int
		switch r.Intn(8) {
		case 0, 1, 2:
			v = th[r.Intn(len(th))] + r.Intn(17) - 8
		case 3:
			v = 1 + r.Intn(16)
		case 4, 5:
			v = 1 + r.Intn(3*m)
		case 6:
			v = 1 + r.Intn(m)
		default:
			v = 1 + r.Intn(12*m)
		}
		out[i] = f.Fit(p, max(v, 1))
	}
	return out
}
