// Package taps contains the wire taps shared by C17 and C18: wrappers around the sockets the
// library opens through its public injection points (Server.ListenPacket / Listen / TLSListen,
// Client.ListenPacket / DialContext / DialTLSContext). The UDP tap sees (and may rewrite) whole
// datagrams; the TCP tap sits *inside* TLS, parses the RTSP byte stream of each direction into
// text messages and interleaved frames, reports outbound frames and may rewrite inbound frame
// payloads before the library reads them. All hooks are called on library goroutines: they must
// be goroutine-safe and installed before Start.
package taps

import (
	"bytes"
	"context"
	"crypto/tls"
	"encoding/binary"
	"errors"
	"net"
	"strconv"
	"sync"
	"sync/atomic"
)

// ---- UDP ----------------------------------------------------------------------------------

// UDPHooks observes / rewrites the datagrams of the sockets created by one ListenPacket func.
type UDPHooks struct {
	// OnWrite is called with every outbound datagram before it is handed to the kernel.
	// b must not be retained.
	OnWrite func(localPort int, b []byte, dst *net.UDPAddr)
	// OnRead is called with every inbound datagram (b[:n]) before the library sees it; it may
	// alter the bytes in place and returns the (possibly changed) length.
	OnRead func(localPort int, b []byte, n int, src *net.UDPAddr) int
}

// UDPConn embeds *net.UDPConn so that it satisfies the library's private packetConn interface
// (SyscallConn, SetReadBuffer).
type UDPConn struct {
	*net.UDPConn
	h    *UDPHooks
	port int
}

// WriteTo implements net.PacketConn.
func (c *UDPConn) WriteTo(b []byte, addr net.Addr) (int, error) {
	if c.h.OnWrite != nil {
		ua, _ := addr.(*net.UDPAddr)
		c.h.OnWrite(c.port, b, ua)
	}
	return c.UDPConn.WriteTo(b, addr)
}

// ReadFrom implements net.PacketConn.
func (c *UDPConn) ReadFrom(b []byte) (int, net.Addr, error) {
	n, a, err := c.UDPConn.ReadFrom(b)
	if err == nil && c.h.OnRead != nil {
		ua, _ := a.(*net.UDPAddr)
		n = c.h.OnRead(c.port, b, n, ua)
	}
	return n, a, err
}

// ListenPacket returns a function for Server.ListenPacket / Client.ListenPacket.
func ListenPacket(h *UDPHooks) func(network, address string) (net.PacketConn, error) {
	return func(network, address string) (net.PacketConn, error) {
		pc, err := net.ListenPacket(network, address)
		if err != nil {
			return nil, err
		}
		uc, ok := pc.(*net.UDPConn)
		if !ok {
			pc.Close()
			return nil, errors.New("taps: not a UDP socket")
		}
		return &UDPConn{UDPConn: uc, h: h, port: uc.LocalAddr().(*net.UDPAddr).Port}, nil
	}
}

// ---- RTSP byte stream scanner -------------------------------------------------------------

// Scanner splits one direction of an RTSP connection into interleaved frames and text
// messages (request / response incl. body). Feed may be called with arbitrary chunks.
type Scanner struct {
	buf []byte
	// Broken is set when the stream cannot be parsed (header block larger than 1 MiB)
	Broken bool
}

// element returns the length of the complete element at the start of b (0 = incomplete) and
// whether it is a frame.
func element(b []byte) (n int, frame bool, broken bool) {
	if len(b) == 0 {
		return 0, false, false
	}
	if b[0] == '$' {
		if len(b) < 4 {
			return 0, true, false
		}
		ln := int(binary.BigEndian.Uint16(b[2:4]))
		if len(b) < 4+ln {
			return 0, true, false
		}
		return 4 + ln, true, false
	}
	i := bytes.Index(b, []byte("\r\n\r\n"))
	if i < 0 {
		return 0, false, len(b) > 1<<20
	}
	cl := 0
	for _, ln := range bytes.Split(b[:i], []byte("\r\n")) {
		if k := bytes.IndexByte(ln, ':'); k > 0 && bytes.EqualFold(bytes.TrimSpace(ln[:k]), []byte("Content-Length")) {
			if v, err := strconv.Atoi(string(bytes.TrimSpace(ln[k+1:]))); err == nil && v >= 0 {
				cl = v
			}
		}
	}
	if len(b) < i+4+cl {
		return 0, false, false
	}
	return i + 4 + cl, false, false
}

// Feed consumes b and calls onFrame(channel, payload) / onMsg(message) for every complete
// element, in stream order. The slices passed to the callbacks alias internal memory (or b) and
// are valid only during the call; changes made to a frame payload are visible to emit.
// emit (optional) receives the raw bytes of every complete element after the callbacks ran.
func (s *Scanner) Feed(b []byte, onFrame func(ch int, payload []byte), onMsg func(msg []byte), emit func(raw []byte)) {
	if s.Broken {
		if emit != nil {
			emit(b)
		}
		return
	}
	src := b
	if len(s.buf) > 0 {
		s.buf = append(s.buf, b...)
		src = s.buf
	}
	for len(src) > 0 {
		n, frame, broken := element(src)
		if broken {
			s.Broken = true
			if emit != nil {
				emit(src)
			}
			s.buf = nil
			return
		}
		if n == 0 {
			break
		}
		if frame {
			if onFrame != nil {
				onFrame(int(src[1]), src[4:n])
			}
		} else if onMsg != nil {
			onMsg(src[:n])
		}
		if emit != nil {
			emit(src[:n])
		}
		src = src[n:]
	}
	if len(src) == 0 {
		s.buf = s.buf[:0]
	} else {
		s.buf = append(s.buf[:0:0], src...) // fresh copy: src may alias b or the old buffer
	}
}

// ---- TCP ----------------------------------------------------------------------------------

// StreamHooks observes / rewrites the RTSP stream of tapped connections.
type StreamHooks struct {
	// OnOpen is called once per tapped connection before any byte flows.
	OnOpen func(c *Conn)
	// OnFrameOut is called with every complete interleaved frame written by the library.
	OnFrameOut func(c *Conn, channel int, payload []byte)
	// OnMsgOut is called with every complete request / response written by the library.
	OnMsgOut func(c *Conn, msg []byte)
	// OnFrameIn is called with every complete inbound interleaved frame before the library reads
	// it; it may alter the payload in place (same length).
	OnFrameIn func(c *Conn, channel int, payload []byte)
	// OnMsgIn is called with every complete inbound request / response.
	OnMsgIn func(c *Conn, msg []byte)
}

var connCtr atomic.Int64

// Conn is a tapped connection. It wraps the plaintext side (inside TLS when TLS is in use).
type Conn struct {
	net.Conn
	ID     int64
	Server bool // accepted by a tapped listener (false: dialled by a tapped client)
	h      *StreamHooks

	wmu  sync.Mutex
	outS Scanner

	rmu   sync.Mutex
	inS   Scanner
	ready []byte
	rerr  error
	tmp   []byte
}

func wrap(nc net.Conn, h *StreamHooks, server bool) *Conn {
	c := &Conn{Conn: nc, h: h, Server: server, ID: connCtr.Add(1)}
	if h.OnOpen != nil {
		h.OnOpen(c)
	}
	return c
}

// Write implements net.Conn; the outbound stream is scanned before it is written.
func (c *Conn) Write(b []byte) (int, error) {
	if c.h.OnFrameOut != nil || c.h.OnMsgOut != nil {
		c.wmu.Lock()
		var of func(int, []byte)
		var om func([]byte)
		if c.h.OnFrameOut != nil {
			of = func(ch int, p []byte) { c.h.OnFrameOut(c, ch, p) }
		}
		if c.h.OnMsgOut != nil {
			om = func(m []byte) { c.h.OnMsgOut(c, m) }
		}
		c.outS.Feed(b, of, om, nil)
		c.wmu.Unlock()
	}
	return c.Conn.Write(b)
}

// Read implements net.Conn. With inbound hooks the stream is forwarded element-wise: a frame
// (or message) reaches the library only once it is complete and the hook has seen it.
func (c *Conn) Read(p []byte) (int, error) {
	if c.h.OnFrameIn == nil && c.h.OnMsgIn == nil {
		return c.Conn.Read(p)
	}
	c.rmu.Lock()
	defer c.rmu.Unlock()
	for len(c.ready) == 0 {
		if c.rerr != nil {
			return 0, c.rerr
		}
		if c.tmp == nil {
			c.tmp = make([]byte, 16384)
		}
		n, err := c.Conn.Read(c.tmp)
		if n > 0 {
			var of func(int, []byte)
			var om func([]byte)
			if c.h.OnFrameIn != nil {
				of = func(ch int, pl []byte) { c.h.OnFrameIn(c, ch, pl) }
			}
			if c.h.OnMsgIn != nil {
				om = func(m []byte) { c.h.OnMsgIn(c, m) }
			}
			c.inS.Feed(c.tmp[:n], of, om, func(raw []byte) { c.ready = append(c.ready, raw...) })
		}
		if err != nil {
			var ne net.Error
			if errors.As(err, &ne) && ne.Timeout() {
				if len(c.ready) == 0 {
					return 0, err
				}
				break // data first; the deadline error re-occurs on the next call
			}
			c.rerr = err
		}
	}
	n := copy(p, c.ready)
	c.ready = c.ready[n:]
	if len(c.ready) == 0 {
		c.ready = nil
	}
	return n, nil
}

// Listener wraps accepted connections.
type Listener struct {
	net.Listener
	h *StreamHooks
}

// Accept implements net.Listener.
func (l *Listener) Accept() (net.Conn, error) {
	nc, err := l.Listener.Accept()
	if err != nil {
		return nil, err
	}
	return wrap(nc, l.h, true), nil
}

// Listen returns a function for Server.Listen (plain RTSP).
func Listen(h *StreamHooks) func(network, address string) (net.Listener, error) {
	return func(network, address string) (net.Listener, error) {
		ln, err := net.Listen(network, address)
		if err != nil {
			return nil, err
		}
		return &Listener{Listener: ln, h: h}, nil
	}
}

// TLSListen returns a function for Server.TLSListen: the tap wraps the TLS connection, i.e. it
// sees the RTSP plaintext.
func TLSListen(h *StreamHooks) func(network, laddr string, cfg *tls.Config) (net.Listener, error) {
	return func(network, laddr string, cfg *tls.Config) (net.Listener, error) {
		ln, err := net.Listen(network, laddr)
		if err != nil {
			return nil, err
		}
		return &Listener{Listener: tls.NewListener(ln, cfg), h: h}, nil
	}
}

// DialContext returns a function for Client.DialContext (plain RTSP).
func DialContext(h *StreamHooks) func(ctx context.Context, network, address string) (net.Conn, error) {
	return func(ctx context.Context, network, address string) (net.Conn, error) {
		nc, err := (&net.Dialer{}).DialContext(ctx, network, address)
		if err != nil {
			return nil, err
		}
		return wrap(nc, h, false), nil
	}
}

// DialTLSContext returns a function for Client.DialTLSContext; the tap wraps the TLS
// connection (plaintext side).
func DialTLSContext(h *StreamHooks, cfg *tls.Config) func(ctx context.Context, network, address string) (net.Conn, error) {
	return func(ctx context.Context, network, address string) (net.Conn, error) {
		nc, err := (&net.Dialer{}).DialContext(ctx, network, address)
		if err != nil {
			return nil, err
		}
		c2 := cfg
		if c2 == nil {
			c2 = &tls.Config{InsecureSkipVerify: true}
		}
		tc := tls.Client(nc, c2)
		if err := tc.HandshakeContext(ctx); err != nil {
			nc.Close()
			return nil, err
		}
		return wrap(tc, h, false), nil
	}
}
