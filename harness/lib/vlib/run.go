package vlib

import (
	"crypto/sha256"
	"encoding/binary"
	"encoding/json"
	"flag"
	"fmt"
	"hash/fnv"
	"math/rand"
	"os"
	"path/filepath"
	"runtime"
	"sort"
	"strconv"
	"strings"
	"sync"
	"time"
)

// Exit codes of a check binary.
const (
	ExitHeld      = 0
	ExitViolation = 1
	ExitHarness   = 2 // harness failure / nothing observed / inconclusive only
)

// Finding is one line of /verif/known_findings.jsonl.
type Finding struct {
	Property string `json:"property"`
	Status   string `json:"status"` // "known" | "fixed"
	Key      string `json:"key"`
	Commit   string `json:"commit,omitempty"`
	What     string `json:"what"`
}

type violation struct {
	Key     string `json:"key"`
	What    string `json:"what"`
	Witness any    `json:"witness"`
	Count   int    `json:"count"`
	Replay  string `json:"replay"`
}

// Run is the per-process state of one check: configuration, coverage counters, samples,
// violations. All methods are safe for concurrent use.
type Run struct {
	ID      string
	Level   string
	Tier    string
	Seed    int64
	Replay  string // path of a witness to replay ("" = normal run)
	OutPath string
	Root    string // /verif

	start time.Time

	mu           sync.Mutex
	counters     map[string]int64
	maxima       map[string]int64
	distinct     map[uint64]struct{}
	samples      []any
	sampleCap    int
	violations   map[string]*violation
	vioOrder     []string
	knownHit     map[string]*Finding
	knownHitCnt  map[string]int
	known        map[string]*Finding
	inconclusive int64
	assumptions  []string
	extra        map[string]any
	exhaustive   *bool
}

// Start parses flags / environment and returns the Run. Flags: -tier, -seed, -out, -replay.
// Environment: VERIF_TIER, VERIF_SEED, VERIF_ROOT.
func Start(id, level string) *Run {
	r := &Run{
		ID:          id,
		Level:       level,
		start:       time.Now(),
		counters:    map[string]int64{},
		maxima:      map[string]int64{},
		distinct:    map[uint64]struct{}{},
		violations:  map[string]*violation{},
		knownHit:    map[string]*Finding{},
		knownHitCnt: map[string]int{},
		known:       map[string]*Finding{},
		extra:       map[string]any{},
		sampleCap:   6,
	}
	tier := os.Getenv("VERIF_TIER")
	if tier == "" {
		tier = "quick"
	}
	seed := int64(1)
	if s := os.Getenv("VERIF_SEED"); s != "" {
		if v, err := strconv.ParseInt(s, 10, 64); err == nil {
			seed = v
		}
	}
	root := os.Getenv("VERIF_ROOT")
	if root == "" {
		root = "/verif"
	}
	fs := flag.CommandLine
	fs.StringVar(&r.Tier, "tier", tier, "quick|thorough")
	fs.Int64Var(&r.Seed, "seed", seed, "PRNG seed")
	fs.StringVar(&r.OutPath, "out", "", "evidence file (default <root>/evidence/<id>.json)")
	fs.StringVar(&r.Replay, "replay", "", "witness file to replay")
	fs.StringVar(&r.Root, "root", root, "verif root")
	if !flag.Parsed() {
		flag.Parse()
	}
	if r.Tier != "quick" && r.Tier != "thorough" {
		fmt.Fprintf(os.Stderr, "bad tier %q\n", r.Tier)
		os.Exit(ExitHarness)
	}
	if r.OutPath == "" {
		r.OutPath = filepath.Join(r.Root, "evidence", id+".json")
	}
	r.loadKnown()
	return r
}

func (r *Run) loadKnown() {
	p := os.Getenv("VERIF_KNOWN")
	if p == "" {
		p = filepath.Join(r.Root, "known_findings.jsonl")
	}
	b, err := os.ReadFile(p)
	if err != nil {
		return
	}
	for _, ln := range strings.Split(string(b), "\n") {
		ln = strings.TrimSpace(ln)
		if ln == "" || strings.HasPrefix(ln, "#") {
			continue
		}
		var f Finding
		if json.Unmarshal([]byte(ln), &f) != nil {
			continue
		}
		if f.Property == r.ID && f.Status == "known" {
			ff := f
			r.known[f.Key] = &ff
		}
	}
}

// Quick reports whether the tier is "quick".
func (r *Run) Quick() bool { return r.Tier == "quick" }

// Pick returns q in the quick tier and t in the thorough tier.
func (r *Run) Pick(q, t int) int {
	if r.Quick() {
		return q
	}
	return t
}

// Rand returns a PRNG derived from (seed, role, index). Never share one between goroutines.
func (r *Run) Rand(role string, idx int) *rand.Rand {
	h := sha256.New()
	var b [16]byte
	binary.LittleEndian.PutUint64(b[:8], uint64(r.Seed))
	binary.LittleEndian.PutUint64(b[8:], uint64(idx))
	h.Write(b[:])
	h.Write([]byte(r.ID))
	h.Write([]byte(role))
	s := h.Sum(nil)
	return rand.New(rand.NewSource(int64(binary.LittleEndian.Uint64(s[:8]))))
}

// Count adds n to a named coverage counter.
func (r *Run) Count(name string, n int64) {
	r.mu.Lock()
	r.counters[name] += n
	r.mu.Unlock()
}

// Max records the maximum seen of a named quantity.
func (r *Run) Max(name string, v int64) {
	r.mu.Lock()
	if cur, ok := r.maxima[name]; !ok || v > cur {
		r.maxima[name] = v
	}
	r.mu.Unlock()
}

// Get returns a counter.
func (r *Run) Get(name string) int64 {
	r.mu.Lock()
	defer r.mu.Unlock()
	return r.counters[name]
}

// Distinct registers a non-trivial case by a canonical key; the number of distinct keys is
// reported as coverage.distinct_nontrivial.
func (r *Run) Distinct(key string) {
	h := fnv.New64a()
	h.Write([]byte(key))
	v := h.Sum64()
	r.mu.Lock()
	r.distinct[v] = struct{}{}
	r.mu.Unlock()
}

// DistinctHash is Distinct for a pre-hashed key.
func (r *Run) DistinctHash(v uint64) {
	r.mu.Lock()
	r.distinct[v] = struct{}{}
	r.mu.Unlock()
}

// Sample keeps up to a few actual cases for the evidence file.
func (r *Run) Sample(v any) {
	r.mu.Lock()
	if len(r.samples) < r.sampleCap {
		r.samples = append(r.samples, v)
	}
	r.mu.Unlock()
}

// WantSample reports whether more samples are wanted (to avoid building them needlessly).
func (r *Run) WantSample() bool {
	r.mu.Lock()
	defer r.mu.Unlock()
	return len(r.samples) < r.sampleCap
}

// Inconclusive counts a case whose verdict could not be decided (watchdog with late canary,
// checker timeout ...).
func (r *Run) Inconclusive(why string) {
	r.mu.Lock()
	r.inconclusive++
	r.counters["inconclusive:"+why]++
	r.mu.Unlock()
}

// Assume records an assumption for the evidence file.
func (r *Run) Assume(s string) {
	r.mu.Lock()
	for _, a := range r.assumptions {
		if a == s {
			r.mu.Unlock()
			return
		}
	}
	r.assumptions = append(r.assumptions, s)
	r.mu.Unlock()
}

// Extra sets an additional coverage key.
func (r *Run) Extra(k string, v any) {
	r.mu.Lock()
	r.extra[k] = v
	r.mu.Unlock()
}

// Exhaustive marks the (named sub-)space as completely enumerated.
func (r *Run) Exhaustive(b bool) {
	r.mu.Lock()
	r.exhaustive = &b
	r.mu.Unlock()
}

// Violation reports a violation with a canonical key naming the failing input class or call
// site. The first witness per key is written to /verif/replay/<id>/<key>.json. Keys listed as
// "known" in known_findings.jsonl are reported as KNOWN-FINDING instead.
func (r *Run) Violation(key, what string, witness any) {
	r.mu.Lock()
	defer r.mu.Unlock()
	if f, ok := r.known[key]; ok {
		r.knownHit[key] = f
		r.knownHitCnt[key]++
		return
	}
	if v, ok := r.violations[key]; ok {
		v.Count++
		return
	}
	v := &violation{Key: key, What: what, Witness: witness, Count: 1}
	dir := filepath.Join(r.Root, "replay", r.ID)
	_ = os.MkdirAll(dir, 0o755)
	safe := strings.Map(func(c rune) rune {
		if c >= 'a' && c <= 'z' || c >= 'A' && c <= 'Z' || c >= '0' && c <= '9' || c == '-' || c == '_' || c == '.' {
			return c
		}
		return '_'
	}, key)
	if len(safe) > 100 {
		safe = safe[:100]
	}
	v.Replay = filepath.Join(dir, safe+".json")
	b, _ := json.MarshalIndent(map[string]any{
		"property": r.ID, "key": key, "what": what, "seed": r.Seed, "tier": r.Tier, "case": witness,
	}, "", " ")
	_ = os.WriteFile(v.Replay, b, 0o644)
	r.violations[key] = v
	r.vioOrder = append(r.vioOrder, key)
	fmt.Fprintf(os.Stderr, "violation key=%s: %s\n", key, what)
}

// Violations returns the number of distinct (unlisted) violation keys so far.
func (r *Run) Violations() int {
	r.mu.Lock()
	defer r.mu.Unlock()
	return len(r.violations)
}

// Finish writes the evidence file, prints KNOWN-FINDING / VIOLATION lines and exits.
// rule describes how cases are generated and what makes one distinct and non-trivial.
// evaluations is the number of cases run.
func (r *Run) Finish(evaluations int64, rule string) {
	r.mu.Lock()
	cov := map[string]any{}
	for k, v := range r.extra {
		cov[k] = v
	}
	keys := make([]string, 0, len(r.counters))
	for k := range r.counters {
		keys = append(keys, k)
	}
	sort.Strings(keys)
	cnt := map[string]int64{}
	for _, k := range keys {
		cnt[k] = r.counters[k]
	}
	cov["counters"] = cnt
	if len(r.maxima) > 0 {
		cov["maxima"] = r.maxima
	}
	cov["evaluations"] = evaluations
	cov["distinct_nontrivial"] = len(r.distinct)
	cov["rule"] = rule
	if len(r.samples) == 0 {
		cov["samples"] = []any{}
	} else {
		cov["samples"] = r.samples
	}
	cov["inconclusive"] = r.inconclusive
	if r.exhaustive != nil {
		cov["exhaustive"] = *r.exhaustive
	}
	kf := []string{}
	for k, n := range r.knownHitCnt {
		kf = append(kf, fmt.Sprintf("%s x%d", k, n))
	}
	sort.Strings(kf)
	cov["known_findings_matched"] = kf
	vios := []any{}
	for _, k := range r.vioOrder {
		v := r.violations[k]
		vios = append(vios, map[string]any{"key": v.Key, "what": v.What, "count": v.Count, "replay": v.Replay})
	}
	cov["violation_keys"] = vios
	ev := map[string]any{
		"property_id": r.ID,
		"tier":        r.Tier,
		"seed":        r.Seed,
		"level":       r.Level,
		"coverage":    cov,
		"assumptions": append([]string{}, r.assumptions...),
		"wall_s":      time.Since(r.start).Seconds(),
		"violations":  len(r.violations),
		"go":          runtime.Version(),
	}
	nvio := len(r.violations)
	ndist := len(r.distinct)
	nsamples := len(r.samples)
	r.mu.Unlock()

	if r.Replay == "" {
		_ = os.MkdirAll(filepath.Dir(r.OutPath), 0o755)
		b, _ := json.MarshalIndent(ev, "", " ")
		tmp := r.OutPath + ".tmp"
		if err := os.WriteFile(tmp, b, 0o644); err == nil {
			_ = os.Rename(tmp, r.OutPath)
		}
	}
	hk := make([]string, 0, len(r.knownHit))
	for k := range r.knownHit {
		hk = append(hk, k)
	}
	sort.Strings(hk)
	for _, k := range hk {
		fmt.Printf("KNOWN-FINDING: property=%s key=%s %s\n", r.ID, k, r.knownHit[k].What)
	}
	for _, k := range r.vioOrder {
		v := r.violations[k]
		fmt.Printf("VIOLATION property=%s replay=%s key=%s count=%d %s\n", r.ID, v.Replay, v.Key, v.Count, v.What)
	}
	fmt.Printf("SUMMARY property=%s tier=%s seed=%d evaluations=%d distinct_nontrivial=%d violations=%d known=%d inconclusive=%d wall=%.1fs\n",
		r.ID, r.Tier, r.Seed, evaluations, ndist, nvio, len(hk), r.inconclusive, time.Since(r.start).Seconds())
	if nvio > 0 {
		os.Exit(ExitViolation)
	}
	if r.Replay == "" && (evaluations == 0 || ndist < 2) {
		fmt.Println("HARNESS-FAILURE: nothing observed")
		os.Exit(ExitHarness)
	}
	if r.Replay == "" && nsamples == 0 {
		fmt.Println("HARNESS-FAILURE: the run recorded no sample case for its evidence")
		os.Exit(ExitHarness)
	}
	os.Exit(ExitHeld)
}

// Fatal reports a harness failure (not a verdict about the property).
func (r *Run) Fatal(format string, a ...any) {
	fmt.Fprintf(os.Stderr, "HARNESS-FAILURE: "+format+"\n", a...)
	fmt.Printf("HARNESS-FAILURE: "+format+"\n", a...)
	os.Exit(ExitHarness)
}

// LoadReplay reads the "case" member of a witness file into v.
func (r *Run) LoadReplay(v any) error {
	b, err := os.ReadFile(r.Replay)
	if err != nil {
		return err
	}
	var w struct {
		Case json.RawMessage `json:"case"`
		Key  string          `json:"key"`
	}
	if err := json.Unmarshal(b, &w); err != nil {
		return err
	}
	return json.Unmarshal(w.Case, v)
}

// ReplayKey returns the key of the witness being replayed.
func (r *Run) ReplayKey() string {
	b, err := os.ReadFile(r.Replay)
	if err != nil {
		return ""
	}
	var w struct {
		Key string `json:"key"`
	}
	_ = json.Unmarshal(b, &w)
	return w.Key
}

// Parallel runs fn(worker, index) for index in [0,n) on GOMAXPROCS workers. Each call is
// protected by recover: a panic is turned into a violation through onPanic(index, value, stack).
func (r *Run) Parallel(n int, fn func(worker, i int), onPanic func(i int, v any, stack string)) {
	w := runtime.GOMAXPROCS(0)
	if w > n {
		w = n
	}
	if w < 1 {
		w = 1
	}
	var wg sync.WaitGroup
	var next int64
	var mu sync.Mutex
	for k := 0; k < w; k++ {
		wg.Add(1)
		go func(k int) {
			defer wg.Done()
			for {
				mu.Lock()
				i := int(next)
				next++
				mu.Unlock()
				if i >= n {
					return
				}
				func() {
					defer func() {
						if v := recover(); v != nil {
							buf := make([]byte, 16384)
							buf = buf[:runtime.Stack(buf, false)]
							if onPanic != nil {
								onPanic(i, v, string(buf))
							}
						}
					}()
					fn(k, i)
				}()
			}
		}(k)
	}
	wg.Wait()
}

// PanicSite classifies the stack of a recovered panic. It walks the frames from the innermost
// one, skipping the runtime; if harness code (package main or verif/...) is met before any
// gortsplib frame the panic is the harness' own and the process is aborted as a harness
// failure; otherwise it returns the innermost gortsplib function (line numbers stripped), for
// use in finding keys.
func PanicSite(stack string) string {
	// when the stack was taken inside a deferred recover, the frames above "panic(" belong to
	// the recovery code (harness): start below it
	if i := strings.Index(stack, "\npanic("); i >= 0 {
		stack = stack[i+1:]
	}
	lines := strings.Split(stack, "\n")
	for _, ln := range lines {
		if strings.HasPrefix(ln, "\t") || strings.HasPrefix(ln, "goroutine ") || ln == "" {
			continue
		}
		if strings.HasPrefix(ln, "runtime.") || strings.HasPrefix(ln, "runtime/") || strings.HasPrefix(ln, "panic(") ||
			strings.HasPrefix(ln, "verif/lib/vlib.(*Run).Parallel") {
			continue
		}
		if strings.HasPrefix(ln, "main.") || strings.HasPrefix(ln, "verif/") {
			fmt.Printf("HARNESS-PANIC in %s\n%s\n", ln, stack)
			os.Exit(ExitHarness)
		}
		if strings.HasPrefix(ln, "github.com/bluenviron/gortsplib") {
			s := ln
			if i := strings.LastIndex(s, "("); i > 0 {
				s = s[:i]
			}
			s = strings.TrimPrefix(s, "github.com/bluenviron/gortsplib/v5/")
			s = strings.TrimPrefix(s, "github.com/bluenviron/gortsplib/v5.")
			return s
		}
	}
	return "unknown"
}

// Stack returns the current goroutine's stack (for use inside a deferred recover).
func Stack() string {
	buf := make([]byte, 32768)
	return string(buf[:runtime.Stack(buf, false)])
}
