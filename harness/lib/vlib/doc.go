// Package vlib is the shared runtime-monitoring support library.
package vlib
