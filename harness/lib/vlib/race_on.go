//go:build race

package vlib

// RaceEnabled reports whether the binary was built with the race detector.
const RaceEnabled = true
