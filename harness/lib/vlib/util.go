package vlib

import (
	"fmt"
	"math/rand"
	"reflect"
	"time"
)

// DeepEqualNorm is reflect.DeepEqual except that nil and empty slices / maps are equal,
// pointers are compared by pointee, time.Time by Equal and unexported fields are ignored
// unless both values are of a type with no exported fields at all.
func DeepEqualNorm(a, b any) bool {
	return deq(reflect.ValueOf(a), reflect.ValueOf(b), 0)
}

var timeType = reflect.TypeOf(time.Time{})

func deq(a, b reflect.Value, depth int) bool {
	if depth > 64 {
		return true
	}
	if !a.IsValid() || !b.IsValid() {
		return a.IsValid() == b.IsValid()
	}
	if a.Type() != b.Type() {
		return false
	}
	if a.Type() == timeType {
		return a.Interface().(time.Time).Equal(b.Interface().(time.Time))
	}
	switch a.Kind() {
	case reflect.Ptr, reflect.Interface:
		if a.IsNil() || b.IsNil() {
			return a.IsNil() == b.IsNil()
		}
		return deq(a.Elem(), b.Elem(), depth+1)
	case reflect.Slice:
		if a.Len() != b.Len() {
			return false
		}
		for i := 0; i < a.Len(); i++ {
			if !deq(a.Index(i), b.Index(i), depth+1) {
				return false
			}
		}
		return true
	case reflect.Array:
		for i := 0; i < a.Len(); i++ {
			if !deq(a.Index(i), b.Index(i), depth+1) {
				return false
			}
		}
		return true
	case reflect.Map:
		if a.Len() != b.Len() {
			return false
		}
		for _, k := range a.MapKeys() {
			bv := b.MapIndex(k)
			if !bv.IsValid() || !deq(a.MapIndex(k), bv, depth+1) {
				return false
			}
		}
		return true
	case reflect.Struct:
		t := a.Type()
		for i := 0; i < a.NumField(); i++ {
			if t.Field(i).PkgPath != "" {
				continue // unexported
			}
			if !deq(a.Field(i), b.Field(i), depth+1) {
				return false
			}
		}
		return true
	case reflect.Func:
		return a.IsNil() == b.IsNil()
	case reflect.Chan, reflect.UnsafePointer:
		return true
	default:
		if a.CanInterface() && b.CanInterface() {
			return a.Interface() == b.Interface()
		}
		switch a.Kind() {
		case reflect.Bool:
			return a.Bool() == b.Bool()
		case reflect.Int, reflect.Int8, reflect.Int16, reflect.Int32, reflect.Int64:
			return a.Int() == b.Int()
		case reflect.Uint, reflect.Uint8, reflect.Uint16, reflect.Uint32, reflect.Uint64, reflect.Uintptr:
			return a.Uint() == b.Uint()
		case reflect.Float32, reflect.Float64:
			return a.Float() == b.Float()
		case reflect.String:
			return a.String() == b.String()
		}
		return true
	}
}

// Dump renders a value for witnesses (pointers followed).
func Dump(v any) string {
	return dump(reflect.ValueOf(v), 0)
}

func dump(v reflect.Value, depth int) string {
	if !v.IsValid() {
		return "nil"
	}
	if depth > 8 {
		return "..."
	}
	if v.Type() == timeType && v.CanInterface() {
		return v.Interface().(time.Time).Format(time.RFC3339Nano)
	}
	switch v.Kind() {
	case reflect.Ptr, reflect.Interface:
		if v.IsNil() {
			return "nil"
		}
		return "&" + dump(v.Elem(), depth+1)
	case reflect.Struct:
		s := v.Type().Name() + "{"
		t := v.Type()
		for i := 0; i < v.NumField(); i++ {
			if t.Field(i).PkgPath != "" {
				continue
			}
			s += t.Field(i).Name + ":" + dump(v.Field(i), depth+1) + " "
		}
		return s + "}"
	case reflect.Slice:
		if v.Type().Elem().Kind() == reflect.Uint8 {
			return fmt.Sprintf("%x", v.Bytes())
		}
		s := "["
		for i := 0; i < v.Len() && i < 32; i++ {
			s += dump(v.Index(i), depth+1) + " "
		}
		return s + "]"
	case reflect.Array:
		s := "["
		for i := 0; i < v.Len(); i++ {
			s += dump(v.Index(i), depth+1) + " "
		}
		return s + "]"
	case reflect.String:
		return fmt.Sprintf("%q", v.String())
	default:
		if v.CanInterface() {
			return fmt.Sprintf("%v", v.Interface())
		}
		return "?"
	}
}

// RandBytes returns n PRNG bytes.
func RandBytes(r *rand.Rand, n int) []byte {
	b := make([]byte, n)
	for i := range b {
		b[i] = byte(r.Intn(256))
	}
	return b
}

// RandString returns a string of length n over alphabet.
func RandString(r *rand.Rand, n int, alphabet string) string {
	b := make([]byte, n)
	for i := range b {
		b[i] = alphabet[r.Intn(len(alphabet))]
	}
	return string(b)
}

// Trunc shortens a string for messages.
func Trunc(s string, n int) string {
	if len(s) <= n {
		return s
	}
	return s[:n] + fmt.Sprintf("...(%d bytes)", len(s))
}
