package vlib

import (
	"fmt"
	"os"
	"path/filepath"
	"sort"
	"strings"
)

// RaceReport is one de-duplicated data race found in the race detector's log files.
type RaceReport struct {
	Key   string // sorted pair of the innermost gortsplib functions of the two accesses
	InLib bool   // at least one access stack contains a gortsplib frame
	Count int
	Text  string // first full report
}

// RaceReports parses the log files written by the race detector (GORACE log_path =
// $VERIF_RACELOG, files <prefix>.<pid>) and de-duplicates reports by the pair of innermost
// gortsplib functions of the two conflicting accesses (line numbers stripped).
func RaceReports() []RaceReport {
	prefix := os.Getenv("VERIF_RACELOG")
	if prefix == "" {
		return nil
	}
	files, _ := filepath.Glob(prefix + ".*")
	byKey := map[string]*RaceReport{}
	for _, f := range files {
		b, err := os.ReadFile(f)
		if err != nil {
			continue
		}
		for _, blk := range strings.Split(string(b), "==================") {
			if !strings.Contains(blk, "WARNING: DATA RACE") {
				continue
			}
			key, inLib := raceKey(blk)
			r, ok := byKey[key]
			if !ok {
				r = &RaceReport{Key: key, InLib: inLib, Text: blk}
				byKey[key] = r
			}
			r.Count++
		}
	}
	out := make([]RaceReport, 0, len(byKey))
	for _, r := range byKey {
		out = append(out, *r)
	}
	sort.Slice(out, func(i, j int) bool { return out[i].Key < out[j].Key })
	return out
}

func raceKey(blk string) (string, bool) {
	// sections are separated by blank lines; access sections start with Read/Write/Previous
	var sites []string
	inLib := false
	for _, sec := range strings.Split(blk, "\n\n") {
		s := strings.TrimLeft(sec, "\n")
		first := strings.SplitN(s, "\n", 2)[0]
		if !(strings.HasPrefix(first, "Read at") || strings.HasPrefix(first, "Write at") ||
			strings.HasPrefix(first, "Previous read at") || strings.HasPrefix(first, "Previous write at") ||
			strings.HasPrefix(first, "Atomic") || strings.HasPrefix(first, "Previous atomic") ||
			strings.Contains(first, "WARNING: DATA RACE")) {
			continue
		}
		site := ""
		top := ""
		for _, ln := range strings.Split(s, "\n") {
			if !strings.HasPrefix(ln, "  ") || strings.HasPrefix(ln, "      ") {
				continue
			}
			fn := strings.TrimSpace(ln)
			if i := strings.LastIndex(fn, "("); i > 0 {
				fn = fn[:i]
			}
			if top == "" {
				top = fn
			}
			if strings.Contains(fn, "github.com/bluenviron/gortsplib") {
				site = strings.TrimPrefix(strings.TrimPrefix(fn, "github.com/bluenviron/gortsplib/v5/"), "github.com/bluenviron/gortsplib/v5.")
				inLib = true
				break
			}
		}
		if strings.Contains(first, "WARNING: DATA RACE") && site == "" && top == "" {
			continue
		}
		if site == "" {
			site = "[" + top + "]"
		}
		sites = append(sites, site)
	}
	if len(sites) > 2 {
		sites = sites[:2]
	}
	sort.Strings(sites)
	return strings.Join(sites, " | "), inLib
}

// ReportRaces turns race reports into violations (key "race/<pair>"); races without any
// gortsplib frame are harness bugs and abort the run as a harness failure. It records the
// number of reports in the evidence and returns it.
func (r *Run) ReportRaces() int {
	reps := RaceReports()
	total := 0
	for _, rep := range reps {
		total += rep.Count
		if !rep.InLib {
			fmt.Printf("HARNESS-FAILURE: data race in harness code only:\n%s\n", rep.Text)
			os.Exit(ExitHarness)
		}
		r.Violation("race/"+rep.Key,
			fmt.Sprintf("data race reported by the Go race detector between %s (%d reports)", rep.Key, rep.Count),
			map[string]any{"report": rep.Text})
	}
	r.Extra("race_detector", map[string]any{"enabled": RaceEnabled, "reports": total, "distinct": len(reps)})
	return total
}
