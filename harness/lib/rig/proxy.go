package rig

import (
	"io"
	"net"
	"sync"
)

// Proxy is a TCP forwarder placed between a client and a server so that the harness can inject
// connection faults at a chosen moment: a reset (RST) towards the client or towards the server on
// one chosen connection, while the other connections of the same peer stay up. It works below TLS.
type Proxy struct {
	// HoldFrom >= 0: connections with that index (in order of arrival) and above are accepted and
	// then held silent - nothing is forwarded, nothing is answered (a peer that stops mid-handshake)
	HoldFrom int

	ln     net.Listener
	target string
	mu     sync.Mutex
	pairs  []*proxyPair
	wg     sync.WaitGroup
}

type proxyPair struct {
	down, up *net.TCPConn // down: accepted from the client, up: dialed to the server
}

// StartProxy listens on 127.0.0.1:0 and forwards every accepted connection to target.
func StartProxy(target string) (*Proxy, error) {
	ln, err := net.Listen("tcp", "127.0.0.1:0")
	if err != nil {
		return nil, err
	}
	p := &Proxy{ln: ln, target: target, HoldFrom: -1}
	p.wg.Add(1)
	go func() {
		defer p.wg.Done()
		for {
			c, err := ln.Accept()
			if err != nil {
				return
			}
			p.mu.Lock()
			hold := p.HoldFrom >= 0 && len(p.pairs) >= p.HoldFrom
			p.mu.Unlock()
			if hold {
				p.mu.Lock()
				p.pairs = append(p.pairs, &proxyPair{down: c.(*net.TCPConn)})
				p.mu.Unlock()
				continue
			}
			up, err := net.Dial("tcp", target)
			if err != nil {
				c.Close()
				continue
			}
			pp := &proxyPair{down: c.(*net.TCPConn), up: up.(*net.TCPConn)}
			p.mu.Lock()
			p.pairs = append(p.pairs, pp)
			p.mu.Unlock()
			p.wg.Add(2)
			go p.pipe(pp.up, pp.down)
			go p.pipe(pp.down, pp.up)
		}
	}()
	return p, nil
}

func (p *Proxy) pipe(dst, src *net.TCPConn) {
	defer p.wg.Done()
	_, _ = io.Copy(dst, src)
	// propagate the end of this direction as a normal close of the write side
	_ = dst.CloseWrite()
}

// SetHoldFrom sets HoldFrom (safe while the proxy is running).
func (p *Proxy) SetHoldFrom(n int) {
	p.mu.Lock()
	p.HoldFrom = n
	p.mu.Unlock()
}

// Addr returns host:port of the proxy.
func (p *Proxy) Addr() string { return p.ln.Addr().String() }

// Count returns the number of connections accepted so far (in order of arrival).
func (p *Proxy) Count() int {
	p.mu.Lock()
	defer p.mu.Unlock()
	return len(p.pairs)
}

func (p *Proxy) pair(i int) *proxyPair {
	p.mu.Lock()
	defer p.mu.Unlock()
	if i < 0 || i >= len(p.pairs) {
		return nil
	}
	return p.pairs[i]
}

// ResetDown sends a TCP reset to the client on connection i (the server side of that connection is
// closed normally).
func (p *Proxy) ResetDown(i int) bool {
	pp := p.pair(i)
	if pp == nil {
		return false
	}
	_ = pp.down.SetLinger(0)
	_ = pp.down.Close()
	if pp.up != nil {
		_ = pp.up.Close()
	}
	return true
}

// ResetUp sends a TCP reset to the server on connection i (the client side of that connection is
// closed normally).
func (p *Proxy) ResetUp(i int) bool {
	pp := p.pair(i)
	if pp == nil {
		return false
	}
	if pp.up != nil {
		_ = pp.up.SetLinger(0)
		_ = pp.up.Close()
	}
	_ = pp.down.Close()
	return true
}

// Close stops the proxy and closes every connection.
func (p *Proxy) Close() {
	_ = p.ln.Close()
	p.mu.Lock()
	for _, pp := range p.pairs {
		_ = pp.down.Close()
		if pp.up != nil {
			_ = pp.up.Close()
		}
	}
	p.mu.Unlock()
	p.wg.Wait()
}
