package rig

import (
	"hash/fnv"
	"runtime"
	"sync"
	"sync/atomic"
	"time"

	"github.com/bluenviron/gortsplib/v5/pkg/verifhooks"
)

// Yielder perturbs schedules at the library's yield points (build tag verif). It is
// goroutine-safe and derives its decisions from (seed, global hit counter) so that no PRNG is
// shared between goroutines.
type Yielder struct {
	seed    uint64
	permil  atomic.Int64 // probability (per 1000) of perturbing at a point
	maxUS   atomic.Int64 // maximum sleep in microseconds (0 = Gosched only)
	counter atomic.Uint64
	mu      sync.Mutex
	hits    map[string]int64
	order   uint64 // rolling hash of the sequence of point names (distinct interleavings)
}

// InstallYielder installs a process-global yield hook.
func InstallYielder(seed int64, permil int, maxUS int) *Yielder {
	y := &Yielder{seed: uint64(seed), hits: map[string]int64{}}
	y.permil.Store(int64(permil))
	y.maxUS.Store(int64(maxUS))
	verifhooks.SetYieldHook(y.point)
	return y
}

// Set changes rate and maximum sleep.
func (y *Yielder) Set(permil, maxUS int) {
	y.permil.Store(int64(permil))
	y.maxUS.Store(int64(maxUS))
}

// Uninstall removes the hook.
func (y *Yielder) Uninstall() { verifhooks.SetYieldHook(nil) }

func mix(a, b uint64) uint64 {
	x := a ^ (b + 0x9e3779b97f4a7c15 + (a << 6) + (a >> 2))
	x ^= x >> 33
	x *= 0xff51afd7ed558ccd
	x ^= x >> 33
	return x
}

func (y *Yielder) point(name string) {
	n := y.counter.Add(1)
	h := fnv.New64a()
	h.Write([]byte(name))
	nh := h.Sum64()
	y.mu.Lock()
	y.hits[name]++
	y.order = mix(y.order, nh)
	y.mu.Unlock()
	// points reached with a lock held must not sleep
	if name == "ring.Pull.wait" {
		return
	}
	p := y.permil.Load()
	if p <= 0 {
		return
	}
	v := mix(y.seed, n)
	if int64(v%1000) >= p {
		return
	}
	mx := y.maxUS.Load()
	if mx <= 0 || (v>>10)%3 == 0 {
		runtime.Gosched()
		return
	}
	time.Sleep(time.Duration((v>>20)%uint64(mx)+1) * time.Microsecond)
}

// Hits returns a copy of the per-point hit counters.
func (y *Yielder) Hits() map[string]int64 {
	y.mu.Lock()
	defer y.mu.Unlock()
	out := map[string]int64{}
	for k, v := range y.hits {
		out[k] = v
	}
	return out
}

// OrderHash returns the rolling hash of the sequence of points hit so far and resets it.
func (y *Yielder) OrderHash() uint64 {
	y.mu.Lock()
	defer y.mu.Unlock()
	o := y.order
	y.order = 0
	return o
}
