// Package rig contains the system-level test rig: port allocation, server and client wrappers,
// raw RTSP peers, censuses, canary, yield controller.
package rig

import (
	"fmt"
	"net"
	"os"
	"sync"
)

var (
	portMu   sync.Mutex
	portNext int
)

func portBase() int {
	// per-process disjoint window inside 20000..59999 (16 windows of 2500 ports)
	return 20000 + (os.Getpid()%16)*2500
}

// FreePortPair returns an even port p such that p and p+1 are currently free for both UDP and
// TCP on all loopback addresses. Ports are handed out sequentially inside a per-process window.
func FreePortPair() int {
	portMu.Lock()
	defer portMu.Unlock()
	for tries := 0; tries < 5000; tries++ {
		p := portBase() + (portNext % 2400)
		portNext += 2
		if p%2 != 0 {
			p++
		}
		if free(p) && free(p+1) {
			return p
		}
	}
	panic("rig: no free port pair")
}

// FreePort returns one free port.
func FreePort() int { return FreePortPair() }

func free(p int) bool {
	l, err := net.Listen("tcp", fmt.Sprintf(":%d", p))
	if err != nil {
		return false
	}
	l.Close()
	u, err := net.ListenPacket("udp", fmt.Sprintf(":%d", p))
	if err != nil {
		return false
	}
	u.Close()
	return true
}
