package rig

import (
	"context"
	"net"
	"sync"
	"sync/atomic"
)

// DialTracker is installed as Client.DialContext and records, for every connection the client
// dials, whether the client ever called Close on it. It makes "Close leaves no socket behind"
// observable independently of the garbage collector (an unreachable net.Conn is closed by its
// finalizer sooner or later, which hides the leak from a descriptor census).
type DialTracker struct {
	// SendBuf, when > 0, is the kernel send buffer size requested for every dialed connection (a
	// peer that stops reading then blocks the client's writer after some kilobytes)
	SendBuf int

	mu    sync.Mutex
	conns []*trackedConn
}

type trackedConn struct {
	net.Conn
	closed atomic.Bool
	remote string
}

func (c *trackedConn) Close() error {
	c.closed.Store(true)
	return c.Conn.Close()
}

// DialContext has the signature of gortsplib.Client.DialContext.
func (t *DialTracker) DialContext(ctx context.Context, network, address string) (net.Conn, error) {
	nc, err := (&net.Dialer{}).DialContext(ctx, network, address)
	if err != nil {
		return nil, err
	}
	if tcp, ok := nc.(*net.TCPConn); ok && t.SendBuf > 0 {
		_ = tcp.SetWriteBuffer(t.SendBuf)
	}
	tc := &trackedConn{Conn: nc, remote: address}
	t.mu.Lock()
	t.conns = append(t.conns, tc)
	t.mu.Unlock()
	return tc, nil
}

// Dialed returns the number of connections dialed so far.
func (t *DialTracker) Dialed() int {
	t.mu.Lock()
	defer t.mu.Unlock()
	return len(t.conns)
}

// Unclosed returns the remote addresses of the dialed connections Close was never called on.
func (t *DialTracker) Unclosed() []string {
	t.mu.Lock()
	defer t.mu.Unlock()
	var out []string
	for _, c := range t.conns {
		if !c.closed.Load() {
			out = append(out, c.remote)
		}
	}
	return out
}

// BlackholeListenPacket has the signature of gortsplib.Client.ListenPacket: the sockets it
// returns can send, but every datagram sent to them is discarded (a path that drops UDP).
func BlackholeListenPacket(network, address string) (net.PacketConn, error) {
	pc, err := net.ListenPacket(network, address)
	if err != nil {
		return nil, err
	}
	uc, ok := pc.(*net.UDPConn)
	if !ok {
		return pc, nil
	}
	return blackholeConn{uc}, nil
}

type blackholeConn struct{ *net.UDPConn }

func (b blackholeConn) ReadFrom(p []byte) (int, net.Addr, error) {
	for {
		if _, _, err := b.UDPConn.ReadFrom(p); err != nil {
			return 0, nil, err
		}
	}
}
