package rig

import (
	"encoding/binary"
	"fmt"
	"hash/crc32"
	"math/rand"
	"strings"
	"sync"
	"sync/atomic"

	"github.com/pion/rtp"
)

// Self-describing RTP payloads, write / delivery logs and the offline delivery checker used by
// the end-to-end properties (C01 and the canary flows of C11, C13, C17, C19, C20).

const (
	payloadMagic = 0x56524631 // "VRF1"
	// MinPayload is the smallest self-describing payload.
	MinPayload = 4 + 4 + 1 + 1 + 1 + 8 + 2 + 4
)

var runCtr atomic.Uint32

// PacketID identifies a written packet.
type PacketID struct {
	Run   uint32
	Dir   uint8
	Media uint8
	PT    uint8
	Ctr   uint64
}

// BuildPayload returns a payload of exactly size bytes (>= MinPayload) describing id, filled
// with PRNG bytes and closed by a CRC32.
func BuildPayload(id PacketID, size int, r *rand.Rand) []byte {
	if size < MinPayload {
		size = MinPayload
	}
	b := make([]byte, size)
	binary.BigEndian.PutUint32(b[0:], payloadMagic)
	binary.BigEndian.PutUint32(b[4:], id.Run)
	b[8], b[9], b[10] = id.Dir, id.Media, id.PT
	binary.BigEndian.PutUint64(b[11:], id.Ctr)
	binary.BigEndian.PutUint16(b[19:], uint16(size))
	for i := 21; i < size-4; i++ {
		b[i] = byte(r.Intn(256))
	}
	binary.BigEndian.PutUint32(b[size-4:], crc32.ChecksumIEEE(b[:size-4]))
	return b
}

// ParsePayload decodes a self-describing payload; ok is false when magic, length or CRC fail.
func ParsePayload(b []byte) (PacketID, bool) {
	var id PacketID
	if len(b) < MinPayload || binary.BigEndian.Uint32(b) != payloadMagic {
		return id, false
	}
	if int(binary.BigEndian.Uint16(b[19:])) != len(b) {
		return id, false
	}
	if crc32.ChecksumIEEE(b[:len(b)-4]) != binary.BigEndian.Uint32(b[len(b)-4:]) {
		return id, false
	}
	id.Run = binary.BigEndian.Uint32(b[4:])
	id.Dir, id.Media, id.PT = b[8], b[9], b[10]
	id.Ctr = binary.BigEndian.Uint64(b[11:])
	return id, true
}

// WriteRec is one write of the publisher side, stamped with the logical clock before the call
// and after its return.
type WriteRec struct {
	Call, Ret int64
	Seq       uint16
	TS        uint32
	Marker    bool
	Len       int
	CRC       uint32
	Err       string
	Sentinel  bool
}

// Flow is the ordered stream of packets written to one (media, format).
type Flow struct {
	Run   uint32
	Dir   uint8
	Media int
	PT    uint8
	// MaxPacket, when > 0, is the largest marshalled RTP packet size the writer may produce
	// (the configured maximum packet size minus the SRTP overhead): payload sizes then reach it
	MaxPacket int

	mu     sync.Mutex
	writes []WriteRec // index = counter
	seq    uint16
	arbSeq bool
	// sentinelFrom > 0: every forwarded write with a counter >= sentinelFrom is drain traffic,
	// also the ones that reach the forwarding point after MarkSentinelFrom was called
	sentinelFrom int
}

// Traffic groups the flows of one run (one stream description).
type Traffic struct {
	Run   uint32
	Flows []*Flow
}

// NewTraffic creates flows for the given (media index, payload type) pairs.
func NewTraffic(dir uint8, pairs [][2]int, r *rand.Rand, arbitrarySeq bool) *Traffic {
	t := &Traffic{Run: runCtr.Add(1)<<8 | uint32(r.Intn(256))}
	for _, p := range pairs {
		f := &Flow{Run: t.Run, Dir: dir, Media: p[0], PT: uint8(p[1]), arbSeq: arbitrarySeq}
		// start so that the run wraps 65535 -> 0 early
		f.seq = uint16(65536 - 1 - r.Intn(200))
		t.Flows = append(t.Flows, f)
	}
	return t
}

// SetSeq sets the sequence number of the packet before the next one (call before writing).
func (f *Flow) SetSeq(v uint16) {
	f.mu.Lock()
	f.seq = v
	f.mu.Unlock()
}

// ToWrap returns how many packets will be written before the sequence number wraps to 0.
func (f *Flow) ToWrap() int {
	f.mu.Lock()
	defer f.mu.Unlock()
	return 65535 - int(f.seq)
}

// Flow returns the flow of (media, pt).
func (t *Traffic) Flow(media int, pt uint8) *Flow {
	for _, f := range t.Flows {
		if f.Media == media && f.PT == pt {
			return f
		}
	}
	return nil
}

// Next builds the next packet of the flow and logs the write call. Only one goroutine writes
// a given flow. The returned index must be passed to Done after the write returned.
func (f *Flow) Next(r *rand.Rand, maxPayload int, sentinel bool) (*rtp.Packet, int) {
	f.mu.Lock()
	ctr := len(f.writes)
	hv := r.Intn(12) // header variant: 0 = two CSRCs, 1 = extension
	if f.MaxPacket > 0 {
		// the marshalled packet may be as large as the configured maximum packet size, exactly
		hdr := 12
		if hv == 0 || hv == 1 {
			hdr += 8
		}
		maxPayload = f.MaxPacket - hdr
	}
	size := MinPayload
	if maxPayload > MinPayload {
		switch r.Intn(4) {
		case 0:
			size = MinPayload + r.Intn(8)
		case 1:
			size = maxPayload - r.Intn(6)
		default:
			size = MinPayload + r.Intn(maxPayload-MinPayload+1)
		}
	}
	pl := BuildPayload(PacketID{Run: f.Run, Dir: f.Dir, Media: uint8(f.Media), PT: f.PT, Ctr: uint64(ctr)}, size, r)
	if f.arbSeq && r.Intn(4) == 0 {
		f.seq = uint16(r.Intn(65536))
	} else {
		f.seq++
	}
	pkt := &rtp.Packet{
		Header: rtp.Header{
			Version:        2,
			Marker:         r.Intn(3) == 0,
			PayloadType:    f.PT,
			SequenceNumber: f.seq,
			Timestamp:      r.Uint32(),
			SSRC:           0x0BADF00D,
		},
		Payload: pl,
	}
	switch hv {
	case 0:
		pkt.Header.CSRC = []uint32{r.Uint32(), r.Uint32()}
	case 1:
		pkt.Header.Extension = true
		pkt.Header.ExtensionProfile = 0x1000
		_ = pkt.Header.SetExtension(0, []byte{1, 2, 3, 4})
	}
	f.writes = append(f.writes, WriteRec{
		Seq: pkt.SequenceNumber, TS: pkt.Timestamp, Marker: pkt.Marker, Len: len(pl),
		CRC: crc32.ChecksumIEEE(pl), Sentinel: sentinel,
	})
	f.mu.Unlock()
	// the call stamp is taken last, right before the caller invokes the write
	c := Tick()
	f.mu.Lock()
	f.writes[ctr].Call = c
	f.mu.Unlock()
	return pkt, ctr
}

// Forward logs the re-publication of an already built packet (second hop of a
// publisher -> server -> reader topology) under the counter carried by its payload. The write
// log of such a flow is sparse: counters that never reached the forwarding point stay empty.
// It returns the index to pass to Done, or -1 if the payload is not a written one.
func (f *Flow) Forward(pkt *rtp.Packet) int {
	id, ok := ParsePayload(pkt.Payload)
	if !ok || id.Run != f.Run {
		return -1
	}
	ctr := int(id.Ctr)
	rec := WriteRec{Seq: pkt.SequenceNumber, TS: pkt.Timestamp, Marker: pkt.Marker, Len: len(pkt.Payload), CRC: crc32.ChecksumIEEE(pkt.Payload)}
	f.mu.Lock()
	for len(f.writes) <= ctr {
		f.writes = append(f.writes, WriteRec{})
	}
	if f.sentinelFrom > 0 && ctr >= f.sentinelFrom {
		rec.Sentinel = true
	}
	f.writes[ctr] = rec
	f.mu.Unlock()
	c := Tick()
	f.mu.Lock()
	f.writes[ctr].Call = c
	f.mu.Unlock()
	return ctr
}

// MarkSentinelFrom marks every write from counter ctr on as a sentinel (drain traffic).
func (f *Flow) MarkSentinelFrom(ctr int) {
	f.mu.Lock()
	if ctr > 0 {
		f.sentinelFrom = ctr
	}
	for i := ctr; i < len(f.writes); i++ {
		f.writes[i].Sentinel = true
	}
	f.mu.Unlock()
}

// Done logs the return of write idx.
func (f *Flow) Done(idx int, err error) {
	c := Tick()
	f.mu.Lock()
	f.writes[idx].Ret = c
	if err != nil {
		f.writes[idx].Err = err.Error()
	}
	f.mu.Unlock()
}

// Written returns the number of writes so far.
func (f *Flow) Written() int {
	f.mu.Lock()
	defer f.mu.Unlock()
	return len(f.writes)
}

// Snapshot returns a copy of the write log.
func (f *Flow) Snapshot() []WriteRec {
	f.mu.Lock()
	defer f.mu.Unlock()
	return append([]WriteRec(nil), f.writes...)
}

// Delivery is one packet handed to a reader callback.
type Delivery struct {
	Clock  int64
	Media  int // as attributed by the library
	PT     uint8
	ID     PacketID
	Parsed bool
	Seq    uint16
	TS     uint32
	Marker bool
	SSRC   uint32
	Len    int
	CRC    uint32
	held   *rtp.Packet
	Window int
}

// Window is one play / record period of a reader.
type Window struct {
	Open    int64  // stamp taken after Play()/Record() returned
	Close   int64  // stamp taken before the reader's own Pause()/Close() was called (0 = still open)
	EndKind string // "pause" | "close" | "drain" | ""
}

// Reader records what one receiving endpoint observed.
type Reader struct {
	Name     string
	Reliable bool // TCP-based transport: completeness is required

	mu         sync.Mutex
	deliveries []Delivery
	windows    []Window
	queueFull  int            // write-queue-full signals attributed to this reader
	AnnSSRC    map[int]uint32 // media index -> ssrc announced in the SETUP response
	heldEvery  int
	lastSeen   map[[2]int]uint64 // (media, pt) -> highest counter seen
}

// NewReader creates a Reader; every heldEvery-th delivered packet is kept for re-hashing.
func NewReader(name string, reliable bool, heldEvery int) *Reader {
	if heldEvery <= 0 {
		heldEvery = 1
	}
	return &Reader{Name: name, Reliable: reliable, AnnSSRC: map[int]uint32{}, heldEvery: heldEvery, lastSeen: map[[2]int]uint64{}}
}

// AnnounceSSRC records the SSRC a SETUP response announced for a media.
func (rd *Reader) AnnounceSSRC(media int, ssrc uint32) {
	rd.mu.Lock()
	rd.AnnSSRC[media] = ssrc
	rd.mu.Unlock()
}

// OnPacket is called from the library's packet callback.
func (rd *Reader) OnPacket(media int, pt uint8, pkt *rtp.Packet) {
	c := Tick()
	id, ok := ParsePayload(pkt.Payload)
	d := Delivery{
		Clock: c, Media: media, PT: pt, ID: id, Parsed: ok, Seq: pkt.SequenceNumber, TS: pkt.Timestamp,
		Marker: pkt.Marker, SSRC: pkt.SSRC, Len: len(pkt.Payload), CRC: crc32.ChecksumIEEE(pkt.Payload),
	}
	rd.mu.Lock()
	d.Window = len(rd.windows) - 1
	if len(rd.deliveries)%rd.heldEvery == 0 {
		d.held = pkt
	}
	rd.deliveries = append(rd.deliveries, d)
	if ok {
		k := [2]int{media, int(pt)}
		if id.Ctr > rd.lastSeen[k] {
			rd.lastSeen[k] = id.Ctr
		}
	}
	rd.mu.Unlock()
}

// WindowPreOpen is called right before Play()/Record() is issued: packets delivered from now
// on belong to the new window (the server activates the reader before it answers PLAY).
func (rd *Reader) WindowPreOpen() {
	rd.mu.Lock()
	rd.windows = append(rd.windows, Window{})
	rd.mu.Unlock()
}

// WindowOpen is called after Play()/Record() returned; packets whose write call is stamped
// later must be delivered on a reliable transport.
func (rd *Reader) WindowOpen() {
	c := Tick()
	rd.mu.Lock()
	if n := len(rd.windows); n > 0 && rd.windows[n-1].Open == 0 && rd.windows[n-1].Close == 0 {
		rd.windows[n-1].Open = c
	} else {
		rd.windows = append(rd.windows, Window{Open: c})
	}
	rd.mu.Unlock()
}

// WindowAbort removes a pre-opened window whose Play()/Record() failed.
func (rd *Reader) WindowAbort() {
	rd.mu.Lock()
	if n := len(rd.windows); n > 0 && rd.windows[n-1].Open == 0 {
		rd.windows[n-1].EndKind = "aborted"
		rd.windows[n-1].Close = -1
	}
	rd.mu.Unlock()
}

// WindowClose is called right before the reader's own Pause()/Close() (or at drain end).
func (rd *Reader) WindowClose(kind string) {
	c := Tick()
	rd.mu.Lock()
	if n := len(rd.windows); n > 0 && rd.windows[n-1].Close == 0 {
		rd.windows[n-1].Close = c
		rd.windows[n-1].EndKind = kind
	}
	rd.mu.Unlock()
}

// QueueFull records a write-queue-full signal attributed to this reader.
func (rd *Reader) QueueFull() {
	rd.mu.Lock()
	rd.queueFull++
	rd.mu.Unlock()
}

// LastSeen returns the highest counter delivered for (media, pt) and whether any was seen.
func (rd *Reader) LastSeen(media int, pt uint8) (uint64, bool) {
	rd.mu.Lock()
	defer rd.mu.Unlock()
	v, ok := rd.lastSeen[[2]int{media, int(pt)}]
	return v, ok
}

// Delivered returns the number of deliveries.
func (rd *Reader) Delivered() int {
	rd.mu.Lock()
	defer rd.mu.Unlock()
	return len(rd.deliveries)
}

// SelfCheck verifies what can be verified without the write log (the writer may live in
// another process): every delivered payload is a valid written one, attributed to the media and
// format it names, with strictly increasing counters per flow. It returns "" or a description.
func (rd *Reader) SelfCheck() string {
	rd.mu.Lock()
	defer rd.mu.Unlock()
	last := map[[2]int]int64{}
	for i, d := range rd.deliveries {
		if !d.Parsed {
			return fmt.Sprintf("delivery %d is not a written payload (len %d)", i, d.Len)
		}
		if d.Media != int(d.ID.Media) || d.PT != d.ID.PT {
			return fmt.Sprintf("packet written to media %d format %d delivered as media %d format %d", d.ID.Media, d.ID.PT, d.Media, d.PT)
		}
		k := [2]int{d.Media, int(d.PT)}
		if l, ok := last[k]; ok && int64(d.ID.Ctr) <= l {
			return fmt.Sprintf("media %d format %d: packet %d delivered after packet %d", d.Media, d.PT, d.ID.Ctr, l)
		}
		last[k] = int64(d.ID.Ctr)
	}
	return ""
}

// Finding is one violation found by the delivery checker.
type Finding struct {
	Key    string
	What   string
	Detail map[string]any
}

// CheckStats summarises what the checker looked at.
type CheckStats struct {
	Deliveries, MustDeliver, Holes, QueueFull, Held, SSRCCompared, Windows int
}

// Check runs the offline delivery oracle for one reader against the traffic it subscribed to.
// dirs: accepted Dir byte of payloads. mediaMap maps the reader's media index to the writer's
// media index (nil = identity).
func Check(t *Traffic, rd *Reader) ([]Finding, CheckStats) {
	var out []Finding
	var st CheckStats
	add := func(key, what string, detail map[string]any) {
		if detail == nil {
			detail = map[string]any{}
		}
		detail["reader"] = rd.Name
		out = append(out, Finding{Key: key, What: what, Detail: detail})
	}
	rd.mu.Lock()
	dels := append([]Delivery(nil), rd.deliveries...)
	wins := append([]Window(nil), rd.windows...)
	qf := rd.queueFull
	ann := map[int]uint32{}
	for k, v := range rd.AnnSSRC {
		ann[k] = v
	}
	rd.mu.Unlock()
	st.Deliveries, st.QueueFull, st.Windows = len(dels), qf, len(wins)

	type fk struct {
		m  int
		pt uint8
	}
	writes := map[fk][]WriteRec{}
	for _, f := range t.Flows {
		writes[fk{f.Media, f.PT}] = f.Snapshot()
	}
	perFlowWin := map[fk]map[int][]uint64{} // flow -> window -> delivered counters in order
	last := map[fk]int64{}
	seen := map[fk]map[uint64]bool{}
	for i, d := range dels {
		if !d.Parsed {
			add("delivered-packet-not-written", "a delivered packet does not carry a valid written payload (magic / length / CRC)", map[string]any{"index": i, "len": d.Len, "seq": d.Seq})
			continue
		}
		if d.ID.Run != t.Run {
			add("delivered-packet-of-other-stream", "a delivered packet belongs to another stream", map[string]any{"index": i})
			continue
		}
		k := fk{int(d.ID.Media), d.ID.PT}
		if d.Media != int(d.ID.Media) || d.PT != d.ID.PT {
			add("wrong-attribution", fmt.Sprintf("packet written to media %d format %d was delivered as media %d format %d", d.ID.Media, d.ID.PT, d.Media, d.PT), map[string]any{"ctr": d.ID.Ctr})
			continue
		}
		ws := writes[k]
		if int(d.ID.Ctr) >= len(ws) {
			add("delivered-packet-not-written", "counter beyond the write log", map[string]any{"ctr": d.ID.Ctr})
			continue
		}
		w := ws[d.ID.Ctr]
		if w.Call == 0 && w.Len == 0 {
			add("delivered-packet-not-written", "a delivered packet was never written / forwarded to this stream", map[string]any{"ctr": d.ID.Ctr})
			continue
		}
		if w.Seq != d.Seq || w.TS != d.TS || w.Marker != d.Marker || w.Len != d.Len || w.CRC != d.CRC {
			add("field-mismatch", fmt.Sprintf("media %d format %d packet %d: written seq=%d ts=%d marker=%v len=%d, delivered seq=%d ts=%d marker=%v len=%d",
				k.m, k.pt, d.ID.Ctr, w.Seq, w.TS, w.Marker, w.Len, d.Seq, d.TS, d.Marker, d.Len), map[string]any{"ctr": d.ID.Ctr})
		}
		if w.Call != 0 && d.Clock < w.Call {
			add("delivered-before-written", "a packet was delivered before its write call was issued", map[string]any{"ctr": d.ID.Ctr})
		}
		if seen[k] == nil {
			seen[k] = map[uint64]bool{}
		}
		if seen[k][d.ID.Ctr] {
			add("duplicate-delivery", fmt.Sprintf("media %d format %d packet %d delivered twice", k.m, k.pt, d.ID.Ctr), map[string]any{"ctr": d.ID.Ctr})
			continue
		}
		seen[k][d.ID.Ctr] = true
		if l, ok := last[k]; ok && int64(d.ID.Ctr) < l {
			add("out-of-order-delivery", fmt.Sprintf("media %d format %d: packet %d delivered after packet %d", k.m, k.pt, d.ID.Ctr, l), map[string]any{"ctr": d.ID.Ctr, "after": l})
		}
		last[k] = int64(d.ID.Ctr)
		if s, ok := ann[d.Media]; ok {
			st.SSRCCompared++
			if s != d.SSRC {
				add("ssrc-differs-from-setup", fmt.Sprintf("SETUP announced ssrc %08X for media %d, packets carry %08X", s, d.Media, d.SSRC), map[string]any{"ctr": d.ID.Ctr})
			}
		}
		if perFlowWin[k] == nil {
			perFlowWin[k] = map[int][]uint64{}
		}
		perFlowWin[k][d.Window] = append(perFlowWin[k][d.Window], d.ID.Ctr)
	}

	// completeness on reliable transports, per (flow, window): every packet whose write call
	// was stamped after Play() returned must be delivered, up to the last delivered packet when
	// the window was ended by the reader itself (tail cut by its own Pause / Close is legal) or
	// up to the last load packet when the stream was drained. Missing packets are legal only if
	// at least as many write-queue-full signals were raised for this reader.
	if rd.Reliable {
		missHead, missBody, missTail := 0, 0, 0
		var example map[string]any
		for k, ws := range writes {
			delivered := seen[k]
			for wi, win := range wins {
				if win.Open == 0 {
					continue // Play() never returned
				}
				got := perFlowWin[k][wi]
				first := -1
				for i, w := range ws {
					if w.Call != 0 && w.Call > win.Open {
						first = i
						break
					}
				}
				if first < 0 {
					continue
				}
				end := -1 // last counter that must be present
				if len(got) > 0 {
					end = int(got[len(got)-1])
				}
				lastLoad := -1
				if win.EndKind == "drain" {
					for i, w := range ws {
						if w.Call != 0 && !w.Sentinel && w.Ret != 0 && w.Ret < win.Close {
							lastLoad = i
						}
					}
				}
				for c := first; c <= end || c <= lastLoad; c++ {
					if c >= len(ws) {
						break
					}
					if e := ws[c].Err; e != "" && !strings.Contains(e, "queue is full") {
						continue // the write was refused (e.g. too big): nothing to deliver
					}
					if ws[c].Call == 0 || (win.Close > 0 && ws[c].Call > win.Close) {
						continue
					}
					st.MustDeliver++
					if delivered[uint64(c)] {
						continue
					}
					switch {
					case len(got) == 0 || c > end:
						missTail++
					case c < int(got[0]):
						missHead++
					default:
						missBody++
					}
					if example == nil {
						example = map[string]any{"media": k.m, "format": k.pt, "window": wi, "end_kind": win.EndKind, "missing_counter": c, "first_must": first, "delivered_in_window": len(got)}
					}
				}
			}
		}
		total := missHead + missBody + missTail
		st.Holes = total
		if total > qf {
			cls := ""
			if missHead > 0 {
				cls += "+head"
			}
			if missBody > 0 {
				cls += "+hole"
			}
			if missTail > 0 {
				cls += "+tail"
			}
			example["missing_head"], example["missing_body"], example["missing_tail"], example["signals"] = missHead, missBody, missTail, qf
			add("missing-packets/"+cls[1:], fmt.Sprintf("%d packets written after PLAY completed are missing (%d before the first delivered one, %d inside the delivered run, %d after the last delivered one of a drained stream) but only %d write-queue-full signals were raised for this reader",
				total, missHead, missBody, missTail, qf), example)
		}
	}

	// packets the application still holds must not change
	for _, d := range dels {
		if d.held == nil {
			continue
		}
		st.Held++
		if crc32.ChecksumIEEE(d.held.Payload) != d.CRC || d.held.SequenceNumber != d.Seq || d.held.Timestamp != d.TS {
			add("held-packet-altered", "a packet kept by the application changed after delivery (buffer re-use)", map[string]any{"ctr": d.ID.Ctr})
			break
		}
	}
	return out, st
}
