package rig

import (
	"crypto/ecdsa"
	"crypto/elliptic"
	"crypto/rand"
	"crypto/tls"
	"crypto/x509"
	"crypto/x509/pkix"
	"fmt"
	"math/big"
	"net"
	"strings"
	"sync"
	"sync/atomic"
	"time"

	"github.com/bluenviron/gortsplib/v5"
	"github.com/bluenviron/gortsplib/v5/pkg/base"
	"github.com/bluenviron/gortsplib/v5/pkg/description"
	"github.com/bluenviron/gortsplib/v5/pkg/format"
	"github.com/pion/rtp"
)

// Clock is the single logical clock that stamps every recorded event.
var Clock atomic.Int64

// Tick advances and returns the logical clock.
func Tick() int64 { return Clock.Add(1) }

// Event is one observation at the library's public boundary.
type Event struct {
	Clock  int64
	Kind   string // conn-open, conn-close, session-open, session-close, request, response, describe, announce, setup, play, record, pause, getparam, setparam, packet-rtp, packet-rtcp, packets-lost, decode-error, stream-write-error
	Conn   *gortsplib.ServerConn
	Sess   *gortsplib.ServerSession
	Method base.Method
	Path   string
	Query  string
	Status base.StatusCode
	Err    string
	Info   string
	Tag    string // value of the X-Verif request header (request events), lets a peer find its connection
}

// Core is the state shared by all handler variants of a TestServer.
type Core struct {
	TS *TestServer

	mu     sync.Mutex
	events []Event

	// counters (atomic) for cheap balance checks
	ConnOpen, ConnClose, SessOpen, SessClose atomic.Int64

	// optional overrides; nil = default behaviour
	Describe func(*gortsplib.ServerHandlerOnDescribeCtx) (*base.Response, *gortsplib.ServerStream, error)
	Announce func(*gortsplib.ServerHandlerOnAnnounceCtx) (*base.Response, error)
	Setup    func(*gortsplib.ServerHandlerOnSetupCtx) (*base.Response, *gortsplib.ServerStream, error)
	Play     func(*gortsplib.ServerHandlerOnPlayCtx) (*base.Response, error)
	Record   func(*gortsplib.ServerHandlerOnRecordCtx) (*base.Response, error)
	Pause    func(*gortsplib.ServerHandlerOnPauseCtx) (*base.Response, error)
	// Extra observers (called after logging); must be goroutine-safe
	OnEvent func(Event)
	// OnRecordPacket is installed on recording sessions (OnPacketRTPAny) when non-nil
	OnRecordPacket func(ss *gortsplib.ServerSession, m *description.Media, f format.Format, pkt *rtp.Packet)
	// LogPackets controls whether packet events are appended to the log
	LogPackets bool
	// NoLog disables the event log (counters and OnEvent still work)
	NoLog bool
}

func (c *Core) log(e Event) {
	e.Clock = Tick()
	if !c.NoLog {
		c.mu.Lock()
		c.events = append(c.events, e)
		c.mu.Unlock()
	}
	if c.OnEvent != nil {
		c.OnEvent(e)
	}
}

// Events returns a copy of the event log.
func (c *Core) Events() []Event {
	c.mu.Lock()
	defer c.mu.Unlock()
	return append([]Event(nil), c.events...)
}

// ResetEvents clears the event log.
func (c *Core) ResetEvents() {
	c.mu.Lock()
	c.events = nil
	c.mu.Unlock()
}

func errStr(err error) string {
	if err == nil {
		return ""
	}
	return err.Error()
}

// --- per-interface handler fragments -------------------------------------------------------

type hBase struct{ c *Core }

func (h hBase) OnConnOpen(ctx *gortsplib.ServerHandlerOnConnOpenCtx) {
	h.c.ConnOpen.Add(1)
	h.c.log(Event{Kind: "conn-open", Conn: ctx.Conn})
}

func (h hBase) OnConnClose(ctx *gortsplib.ServerHandlerOnConnCloseCtx) {
	h.c.log(Event{Kind: "conn-close", Conn: ctx.Conn, Err: errStr(ctx.Error)})
	h.c.ConnClose.Add(1)
}

func (h hBase) OnSessionOpen(ctx *gortsplib.ServerHandlerOnSessionOpenCtx) {
	h.c.SessOpen.Add(1)
	h.c.log(Event{Kind: "session-open", Conn: ctx.Conn, Sess: ctx.Session})
}

func (h hBase) OnSessionClose(ctx *gortsplib.ServerHandlerOnSessionCloseCtx) {
	h.c.log(Event{Kind: "session-close", Sess: ctx.Session, Err: errStr(ctx.Error)})
	h.c.SessClose.Add(1)
}

func (h hBase) OnRequest(sc *gortsplib.ServerConn, req *base.Request) {
	tag := ""
	if v, ok := req.Header["X-Verif"]; ok && len(v) == 1 {
		tag = v[0]
	} else if v, ok := req.Header["User-Agent"]; ok && len(v) == 1 && strings.HasPrefix(v[0], "verif:") {
		tag = v[0] // library clients identify themselves through Client.UserAgent
	}
	h.c.log(Event{Kind: "request", Conn: sc, Method: req.Method, Info: cseqOf(req.Header), Tag: tag})
}

func (h hBase) OnResponse(sc *gortsplib.ServerConn, res *base.Response) {
	h.c.log(Event{Kind: "response", Conn: sc, Status: res.StatusCode, Info: cseqOf(res.Header)})
}

func (h hBase) OnPacketsLost(ctx *gortsplib.ServerHandlerOnPacketsLostCtx) {
	h.c.log(Event{Kind: "packets-lost", Sess: ctx.Session, Info: fmt.Sprint(ctx.Lost)})
}

func (h hBase) OnDecodeError(ctx *gortsplib.ServerHandlerOnDecodeErrorCtx) {
	h.c.log(Event{Kind: "decode-error", Sess: ctx.Session, Err: errStr(ctx.Error)})
}

func (h hBase) OnStreamWriteError(ctx *gortsplib.ServerHandlerOnStreamWriteErrorCtx) {
	h.c.log(Event{Kind: "stream-write-error", Sess: ctx.Session, Err: errStr(ctx.Error)})
}

func cseqOf(h base.Header) string {
	if v, ok := h["CSeq"]; ok && len(v) == 1 {
		return v[0]
	}
	return ""
}

// refusal lets a peer ask the application handler to refuse its request: a request carrying
// "X-Verif-Refuse: <status>" is answered by the handler with that status and no error (the
// connection and the session stay up), as an application would refuse for reasons of its own.
func refusal(req *base.Request) *base.Response {
	if v, ok := req.Header["X-Verif-Refuse"]; ok && len(v) == 1 {
		var code int
		if _, err := fmt.Sscan(v[0], &code); err == nil && code >= 300 && code < 600 {
			return &base.Response{StatusCode: base.StatusCode(code)}
		}
	}
	return nil
}

type hDescribe struct{ c *Core }

func (h hDescribe) OnDescribe(ctx *gortsplib.ServerHandlerOnDescribeCtx) (*base.Response, *gortsplib.ServerStream, error) {
	h.c.log(Event{Kind: "describe", Conn: ctx.Conn, Method: base.Describe, Path: ctx.Path, Query: ctx.Query})
	if res := refusal(ctx.Request); res != nil {
		return res, nil, nil
	}
	if h.c.Describe != nil {
		return h.c.Describe(ctx)
	}
	st := h.c.TS.StreamFor(ctx.Path)
	if st == nil {
		return &base.Response{StatusCode: base.StatusNotFound}, nil, nil
	}
	return &base.Response{StatusCode: base.StatusOK}, st, nil
}

type hAnnounce struct{ c *Core }

func (h hAnnounce) OnAnnounce(ctx *gortsplib.ServerHandlerOnAnnounceCtx) (*base.Response, error) {
	h.c.log(Event{Kind: "announce", Conn: ctx.Conn, Sess: ctx.Session, Method: base.Announce, Path: ctx.Path, Query: ctx.Query})
	if res := refusal(ctx.Request); res != nil {
		return res, nil
	}
	if h.c.Announce != nil {
		return h.c.Announce(ctx)
	}
	return &base.Response{StatusCode: base.StatusOK}, nil
}

type hSetup struct{ c *Core }

func (h hSetup) OnSetup(ctx *gortsplib.ServerHandlerOnSetupCtx) (*base.Response, *gortsplib.ServerStream, error) {
	h.c.log(Event{Kind: "setup", Conn: ctx.Conn, Sess: ctx.Session, Method: base.Setup, Path: ctx.Path, Query: ctx.Query,
		Info: fmt.Sprintf("%v/%v", ctx.Transport.Protocol, ctx.Transport.Profile)})
	if res := refusal(ctx.Request); res != nil {
		return res, nil, nil
	}
	if h.c.Setup != nil {
		return h.c.Setup(ctx)
	}
	if ctx.Session.State() == gortsplib.ServerSessionStatePreRecord {
		return &base.Response{StatusCode: base.StatusOK}, nil, nil
	}
	st := h.c.TS.StreamFor(ctx.Path)
	if st == nil {
		return &base.Response{StatusCode: base.StatusNotFound}, nil, nil
	}
	return &base.Response{StatusCode: base.StatusOK}, st, nil
}

type hPlay struct{ c *Core }

func (h hPlay) OnPlay(ctx *gortsplib.ServerHandlerOnPlayCtx) (*base.Response, error) {
	h.c.log(Event{Kind: "play", Conn: ctx.Conn, Sess: ctx.Session, Method: base.Play, Path: ctx.Path, Query: ctx.Query})
	if res := refusal(ctx.Request); res != nil {
		return res, nil
	}
	if h.c.Play != nil {
		return h.c.Play(ctx)
	}
	return &base.Response{StatusCode: base.StatusOK}, nil
}

type hRecord struct{ c *Core }

func (h hRecord) OnRecord(ctx *gortsplib.ServerHandlerOnRecordCtx) (*base.Response, error) {
	h.c.log(Event{Kind: "record", Conn: ctx.Conn, Sess: ctx.Session, Method: base.Record, Path: ctx.Path, Query: ctx.Query})
	if res := refusal(ctx.Request); res != nil {
		return res, nil
	}
	if h.c.OnRecordPacket != nil || h.c.LogPackets {
		ss := ctx.Session
		ss.OnPacketRTPAny(func(m *description.Media, f format.Format, pkt *rtp.Packet) {
			if h.c.LogPackets {
				h.c.log(Event{Kind: "packet-rtp", Sess: ss, Info: fmt.Sprintf("pt=%d seq=%d", pkt.PayloadType, pkt.SequenceNumber)})
			}
			if h.c.OnRecordPacket != nil {
				h.c.OnRecordPacket(ss, m, f, pkt)
			}
		})
	}
	if h.c.Record != nil {
		return h.c.Record(ctx)
	}
	return &base.Response{StatusCode: base.StatusOK}, nil
}

type hPause struct{ c *Core }

func (h hPause) OnPause(ctx *gortsplib.ServerHandlerOnPauseCtx) (*base.Response, error) {
	h.c.log(Event{Kind: "pause", Conn: ctx.Conn, Sess: ctx.Session, Method: base.Pause, Path: ctx.Path, Query: ctx.Query})
	if res := refusal(ctx.Request); res != nil {
		return res, nil
	}
	if h.c.Pause != nil {
		return h.c.Pause(ctx)
	}
	return &base.Response{StatusCode: base.StatusOK}, nil
}

type hGetParam struct{ c *Core }

func (h hGetParam) OnGetParameter(ctx *gortsplib.ServerHandlerOnGetParameterCtx) (*base.Response, error) {
	h.c.log(Event{Kind: "getparam", Conn: ctx.Conn, Sess: ctx.Session, Method: base.GetParameter, Path: ctx.Path, Query: ctx.Query})
	return &base.Response{StatusCode: base.StatusOK}, nil
}

type hSetParam struct{ c *Core }

func (h hSetParam) OnSetParameter(ctx *gortsplib.ServerHandlerOnSetParameterCtx) (*base.Response, error) {
	h.c.log(Event{Kind: "setparam", Conn: ctx.Conn, Sess: ctx.Session, Method: base.SetParameter, Path: ctx.Path, Query: ctx.Query})
	return &base.Response{StatusCode: base.StatusOK}, nil
}

// handler variants (which interfaces the "application" implements)
type (
	hFull struct {
		hBase
		hDescribe
		hAnnounce
		hSetup
		hPlay
		hRecord
		hPause
		hGetParam
		hSetParam
	}
	hStd struct { // no GET/SET_PARAMETER handlers (library defaults apply)
		hBase
		hDescribe
		hAnnounce
		hSetup
		hPlay
		hRecord
		hPause
	}
	hNoRecord struct {
		hBase
		hDescribe
		hSetup
		hPlay
		hPause
	}
	hNoPlay struct {
		hBase
		hAnnounce
		hSetup
		hRecord
		hPause
	}
	hNoPause struct {
		hBase
		hDescribe
		hAnnounce
		hSetup
		hPlay
		hRecord
	}
	hDescribeOnly struct {
		hBase
		hDescribe
	}
	hNone struct{ hBase }
)

// HandlerSets lists the available handler subsets.
var HandlerSets = []string{"full", "std", "no-record", "no-play", "no-pause", "describe-only", "none"}

// Implements reports whether a handler set implements the handler for a method.
func Implements(set string, m base.Method) bool {
	has := map[string]string{
		"full":          "DESCRIBE ANNOUNCE SETUP PLAY RECORD PAUSE GET_PARAMETER SET_PARAMETER",
		"std":           "DESCRIBE ANNOUNCE SETUP PLAY RECORD PAUSE",
		"no-record":     "DESCRIBE SETUP PLAY PAUSE",
		"no-play":       "ANNOUNCE SETUP RECORD PAUSE",
		"no-pause":      "DESCRIBE ANNOUNCE SETUP PLAY RECORD",
		"describe-only": "DESCRIBE",
		"none":          "",
	}[set]
	for _, w := range strings.Fields(has) {
		if w == string(m) {
			return true
		}
	}
	return false
}

func makeHandler(set string, c *Core) gortsplib.ServerHandler {
	b := hBase{c}
	switch set {
	case "full", "":
		return &hFull{b, hDescribe{c}, hAnnounce{c}, hSetup{c}, hPlay{c}, hRecord{c}, hPause{c}, hGetParam{c}, hSetParam{c}}
	case "std":
		return &hStd{b, hDescribe{c}, hAnnounce{c}, hSetup{c}, hPlay{c}, hRecord{c}, hPause{c}}
	case "no-record":
		return &hNoRecord{b, hDescribe{c}, hSetup{c}, hPlay{c}, hPause{c}}
	case "no-play":
		return &hNoPlay{b, hAnnounce{c}, hSetup{c}, hRecord{c}, hPause{c}}
	case "no-pause":
		return &hNoPause{b, hDescribe{c}, hAnnounce{c}, hSetup{c}, hPlay{c}, hRecord{c}}
	case "describe-only":
		return &hDescribeOnly{b, hDescribe{c}}
	case "none":
		return &hNone{b}
	}
	panic("rig: unknown handler set " + set)
}

// ServerOpts configures a TestServer.
type ServerOpts struct {
	UDP, Multicast, TLS  bool
	HandlerSet           string
	ReadTimeout          time.Duration
	WriteTimeout         time.Duration
	IdleTimeout          time.Duration
	CheckStreamPeriod    time.Duration
	SenderReportPeriod   time.Duration
	ReceiverReportPeriod time.Duration
	WriteQueueSize       int
	MaxPacketSize        int
	Desc                 *description.Session // stream published at StreamPath ("" = default 2-media description)
	StreamPath           string               // default "/stream"
	NoStream             bool
	OnEvent              func(Event) // installed before Start (goroutine-safe)
	NoLog                bool        // do not keep the event log
	LogPackets           bool
	Mutate               func(*gortsplib.Server) // last-minute changes before Start
	PreStart             func(*TestServer)       // install Core overrides (ts.Core.*) before Start
	ListenIP             string                  // default 127.0.0.1
}

// TestServer is a gortsplib.Server with logging handlers and one published stream.
type TestServer struct {
	S      *gortsplib.Server
	Core   *Core
	Stream *gortsplib.ServerStream
	Opts   ServerOpts
	Port   int
	TLSCfg *tls.Config // client-side config trusting the server (InsecureSkipVerify)

	streamsMu sync.Mutex
	streams   map[string]*gortsplib.ServerStream
}

// DefaultDesc returns a 2-media description (one generic video-like, one generic audio-like).
func DefaultDesc() *description.Session {
	f1 := &format.Generic{PayloadTyp: 96, RTPMa: "private/90000"}
	_ = f1.Init()
	f2 := &format.Generic{PayloadTyp: 97, RTPMa: "private/48000"}
	_ = f2.Init()
	return &description.Session{Medias: []*description.Media{
		{Type: description.MediaTypeVideo, Formats: []format.Format{f1}},
		{Type: description.MediaTypeAudio, Formats: []format.Format{f2}},
	}}
}

var (
	certOnce sync.Once
	certVal  tls.Certificate
)

// ServerCert returns a process-wide self-signed certificate for 127.0.0.1 / localhost.
func ServerCert() tls.Certificate {
	certOnce.Do(func() {
		key, err := ecdsa.GenerateKey(elliptic.P256(), rand.Reader)
		if err != nil {
			panic(err)
		}
		tmpl := &x509.Certificate{
			SerialNumber: big.NewInt(1),
			Subject:      pkix.Name{CommonName: "localhost"},
			NotBefore:    time.Now().Add(-time.Hour),
			NotAfter:     time.Now().Add(240 * time.Hour),
			KeyUsage:     x509.KeyUsageDigitalSignature | x509.KeyUsageKeyEncipherment,
			ExtKeyUsage:  []x509.ExtKeyUsage{x509.ExtKeyUsageServerAuth},
			DNSNames:     []string{"localhost"},
			IPAddresses:  []net.IP{net.ParseIP("127.0.0.1"), net.ParseIP("::1")},
		}
		der, err := x509.CreateCertificate(rand.Reader, tmpl, tmpl, &key.PublicKey, key)
		if err != nil {
			panic(err)
		}
		certVal = tls.Certificate{Certificate: [][]byte{der}, PrivateKey: key}
	})
	return certVal
}

// StartServer starts a TestServer on a free loopback port.
func StartServer(o ServerOpts) (*TestServer, error) {
	if o.StreamPath == "" {
		o.StreamPath = "/stream"
	}
	if o.ListenIP == "" {
		o.ListenIP = "127.0.0.1"
		if o.Multicast {
			// multicast needs an interface with the MULTICAST flag (the loopback has none)
			if ip := MulticastIP(); ip != "" {
				o.ListenIP = ip
			}
		}
	}
	var lastErr error
	for attempt := 0; attempt < 20; attempt++ {
		ts := &TestServer{Opts: o, streams: map[string]*gortsplib.ServerStream{}}
		ts.Core = &Core{TS: ts, OnEvent: o.OnEvent, NoLog: o.NoLog, LogPackets: o.LogPackets}
		port := FreePortPair()
		ts.Port = port
		s := &gortsplib.Server{
			RTSPAddress:    fmt.Sprintf("%s:%d", hostLit(o.ListenIP), port),
			ReadTimeout:    o.ReadTimeout,
			WriteTimeout:   o.WriteTimeout,
			IdleTimeout:    o.IdleTimeout,
			WriteQueueSize: o.WriteQueueSize,
			MaxPacketSize:  o.MaxPacketSize,
			Handler:        makeHandler(o.HandlerSet, ts.Core),
		}
		if o.UDP {
			up := FreePortPair()
			s.UDPRTPAddress = fmt.Sprintf("%s:%d", hostLit(o.ListenIP), up)
			s.UDPRTCPAddress = fmt.Sprintf("%s:%d", hostLit(o.ListenIP), up+1)
		}
		if o.Multicast {
			mp := FreePortPair()
			s.MulticastIPRange = "224.1.0.0/16"
			s.MulticastRTPPort = mp
			s.MulticastRTCPPort = mp + 1
		}
		if o.TLS {
			s.TLSConfig = &tls.Config{Certificates: []tls.Certificate{ServerCert()}}
			ts.TLSCfg = &tls.Config{InsecureSkipVerify: true}
		}
		s.VerifSetTimers(nil, o.SenderReportPeriod, o.ReceiverReportPeriod, o.CheckStreamPeriod)
		if o.Mutate != nil {
			o.Mutate(s)
		}
		ts.S = s
		if o.PreStart != nil {
			// handler overrides must be installed before any connection goroutine can exist
			o.PreStart(ts)
		}
		if err := s.Start(); err != nil {
			lastErr = err
			if strings.Contains(err.Error(), "address already in use") {
				continue
			}
			return nil, err
		}
		if !o.NoStream {
			d := o.Desc
			if d == nil {
				d = DefaultDesc()
			}
			st := &gortsplib.ServerStream{Server: s, Desc: d}
			if err := st.Initialize(); err != nil {
				s.Close()
				return nil, err
			}
			ts.Stream = st
			ts.streams[strings.TrimPrefix(o.StreamPath, "/")] = st
		}
		return ts, nil
	}
	return nil, lastErr
}

// MulticastIP returns an IPv4 address of a multicast-capable interface ("" if none).
func MulticastIP() string {
	ifs, err := net.Interfaces()
	if err != nil {
		return ""
	}
	for _, intf := range ifs {
		if intf.Flags&net.FlagMulticast == 0 || intf.Flags&net.FlagUp == 0 {
			continue
		}
		addrs, err := intf.Addrs()
		if err != nil {
			continue
		}
		for _, a := range addrs {
			if n, ok := a.(*net.IPNet); ok && n.IP.To4() != nil {
				return n.IP.String()
			}
		}
	}
	return ""
}

func hostLit(ip string) string {
	if strings.Contains(ip, ":") {
		return "[" + ip + "]"
	}
	return ip
}

// StreamFor returns the stream published at a handler path (leading slash optional).
func (ts *TestServer) StreamFor(path string) *gortsplib.ServerStream {
	ts.streamsMu.Lock()
	defer ts.streamsMu.Unlock()
	return ts.streams[strings.TrimPrefix(path, "/")]
}

// Publish registers a stream at a path.
func (ts *TestServer) Publish(path string, st *gortsplib.ServerStream) {
	ts.streamsMu.Lock()
	ts.streams[strings.TrimPrefix(path, "/")] = st
	ts.streamsMu.Unlock()
}

// Addr returns host:port of the RTSP listener.
func (ts *TestServer) Addr() string {
	return fmt.Sprintf("%s:%d", hostLit(ts.Opts.ListenIP), ts.Port)
}

// URL returns the rtsp(s) URL of a path on this server.
func (ts *TestServer) URL(path string) string {
	scheme := "rtsp"
	if ts.Opts.TLS {
		scheme = "rtsps"
	}
	return scheme + "://" + ts.Addr() + path
}

// Close closes the stream(s) and the server.
func (ts *TestServer) Close() {
	ts.streamsMu.Lock()
	sts := make([]*gortsplib.ServerStream, 0, len(ts.streams))
	for _, st := range ts.streams {
		sts = append(sts, st)
	}
	ts.streamsMu.Unlock()
	for _, st := range sts {
		st.Close()
	}
	ts.S.Close()
}
