package rig

import (
	"crypto/tls"
	"fmt"
	"math/rand"
	"sync"
	"sync/atomic"
	"time"

	"github.com/bluenviron/gortsplib/v5"
	"github.com/bluenviron/gortsplib/v5/pkg/base"
	"github.com/bluenviron/gortsplib/v5/pkg/description"
	"github.com/bluenviron/gortsplib/v5/pkg/format"
	"github.com/bluenviron/gortsplib/v5/pkg/headers"
	"github.com/pion/rtp"
)

// ClientOpts configures a reading or publishing gortsplib.Client.
type ClientOpts struct {
	Name           string
	Proto          string // "udp" | "tcp" | "mcast" | "auto"
	Tunnel         gortsplib.Tunnel
	WriteQueueSize int
	MaxPacketSize  int
	ReadTimeout    time.Duration
	WriteTimeout   time.Duration
	Path           string        // default "/stream"
	SlowCallback   time.Duration // sleep inside the packet callback (slow consumer)
	HeldEvery      int           // keep every n-th packet for re-hashing (default 1)
	Mutate         func(*gortsplib.Client)
	URLOverride    string // full URL instead of ts.URL(Path)
	OnlyMedias     []int  // set up only these medias of the description (default: all)
}

// PlayClient is a reading client with a delivery log.
type PlayClient struct {
	C    *gortsplib.Client
	Rd   *Reader
	Desc *description.Session
	URL  *base.URL
	opts ClientOpts

	mu       sync.Mutex
	setupN   int
	closed   bool
	WaitErr  atomic.Value // error returned by Wait, once known
	Switched atomic.Bool  // transport switch happened

	// what the client reported through OnPacketsLost / OnDecodeError (diagnostics)
	LostReported   atomic.Int64
	DecodeErrs     atomic.Int64
	FirstDecodeErr atomic.Value // string
}

func protoPtr(p string) *gortsplib.Protocol {
	var v gortsplib.Protocol
	switch p {
	case "udp":
		v = gortsplib.ProtocolUDP
	case "tcp":
		v = gortsplib.ProtocolTCP
	case "mcast":
		v = gortsplib.ProtocolUDPMulticast
	default:
		return nil
	}
	return &v
}

// Reliable reports whether the transport selected by opts is TCP based.
func (o ClientOpts) Reliable() bool {
	return o.Proto == "tcp" || o.Tunnel != gortsplib.TunnelNone
}

func newClient(ts *TestServer, o ClientOpts) (*gortsplib.Client, *base.URL, error) {
	if o.Path == "" {
		o.Path = "/stream"
	}
	us := ts.URL(o.Path)
	if o.URLOverride != "" {
		us = o.URLOverride
	}
	u, err := base.ParseURL(us)
	if err != nil {
		return nil, nil, err
	}
	c := &gortsplib.Client{
		Scheme:         u.Scheme,
		Host:           u.Host,
		Protocol:       protoPtr(o.Proto),
		Tunnel:         o.Tunnel,
		WriteQueueSize: o.WriteQueueSize,
		MaxPacketSize:  o.MaxPacketSize,
		ReadTimeout:    o.ReadTimeout,
		WriteTimeout:   o.WriteTimeout,
	}
	if o.Name != "" {
		c.UserAgent = "verif:" + o.Name
	}
	if ts.Opts.TLS {
		c.TLSConfig = &tls.Config{InsecureSkipVerify: true}
	}
	if o.Tunnel != gortsplib.TunnelNone && c.Protocol == nil {
		c.Protocol = protoPtr("tcp")
	}
	return c, u, nil
}

// NewPlayClient prepares (does not start) a reading client.
func NewPlayClient(ts *TestServer, o ClientOpts) (*PlayClient, error) {
	c, u, err := newClient(ts, o)
	if err != nil {
		return nil, err
	}
	pc := &PlayClient{C: c, URL: u, opts: o}
	pc.Rd = NewReader(o.Name, o.Reliable(), o.HeldEvery)
	c.OnResponse = func(res *base.Response) {
		// SETUP responses carry a Transport header; the i-th one belongs to media i (SetupAll order)
		if th, ok := res.Header["Transport"]; ok && res.StatusCode == base.StatusOK {
			var t headers.Transport
			if t.Unmarshal(th) == nil {
				pc.mu.Lock()
				i := pc.setupN
				pc.setupN++
				pc.mu.Unlock()
				if t.SSRC != nil {
					pc.Rd.mu.Lock()
					pc.Rd.AnnSSRC[i] = *t.SSRC
					pc.Rd.mu.Unlock()
				}
			}
		}
	}
	c.OnTransportSwitch = func(error) { pc.Switched.Store(true) }
	c.OnPacketsLost = func(n uint64) { pc.LostReported.Add(int64(n)) }
	c.OnDecodeError = func(err error) {
		if pc.DecodeErrs.Add(1) == 1 {
			pc.FirstDecodeErr.Store(err.Error())
		}
	}
	if o.Mutate != nil {
		o.Mutate(c)
	}
	return pc, nil
}

// Start connects, describes, sets up all medias and plays.
func (pc *PlayClient) Start() error {
	if err := pc.C.Start(); err != nil {
		return fmt.Errorf("start: %w", err)
	}
	desc, _, err := pc.C.Describe(pc.URL)
	if err != nil {
		pc.C.Close()
		return fmt.Errorf("describe: %w", err)
	}
	pc.Desc = desc
	if len(pc.opts.OnlyMedias) > 0 {
		for _, i := range pc.opts.OnlyMedias {
			if i >= len(desc.Medias) {
				continue
			}
			if _, err := pc.C.Setup(desc.BaseURL, desc.Medias[i], 0, 0); err != nil {
				pc.C.Close()
				return fmt.Errorf("setup: %w", err)
			}
		}
	} else if err := pc.C.SetupAll(desc.BaseURL, desc.Medias); err != nil {
		pc.C.Close()
		return fmt.Errorf("setup: %w", err)
	}
	idx := map[*description.Media]int{}
	for i, m := range desc.Medias {
		idx[m] = i
	}
	slow := pc.opts.SlowCallback
	pc.C.OnPacketRTPAny(func(m *description.Media, f format.Format, pkt *rtp.Packet) {
		pc.Rd.OnPacket(idx[m], f.PayloadType(), pkt)
		if slow > 0 {
			time.Sleep(slow)
		}
	})
	pc.Rd.WindowPreOpen()
	if _, err := pc.C.Play(nil); err != nil {
		pc.Rd.WindowAbort()
		pc.C.Close()
		return fmt.Errorf("play: %w", err)
	}
	pc.Rd.WindowOpen()
	go func() {
		err := pc.C.Wait()
		pc.mu.Lock()
		own := pc.closed
		pc.mu.Unlock()
		if err != nil && !own {
			// the session ended without the reader asking for it
			pc.Rd.WindowClose("died")
			pc.WaitErr.Store(err)
		}
	}()
	return nil
}

// Died returns the error that ended the client, if it ended by itself.
func (pc *PlayClient) Died() error {
	if v := pc.WaitErr.Load(); v != nil {
		return v.(error)
	}
	return nil
}

// Pause pauses (the window is closed before the request is sent).
func (pc *PlayClient) Pause() error {
	pc.Rd.WindowClose("pause")
	_, err := pc.C.Pause()
	return err
}

// Resume plays again.
func (pc *PlayClient) Resume() error {
	pc.Rd.WindowPreOpen()
	if _, err := pc.C.Play(nil); err != nil {
		pc.Rd.WindowAbort()
		return err
	}
	pc.Rd.WindowOpen()
	return nil
}

// Close closes the client (the window is closed first, kind "close" unless already closed).
func (pc *PlayClient) Close() {
	pc.mu.Lock()
	if pc.closed {
		pc.mu.Unlock()
		return
	}
	pc.closed = true
	pc.mu.Unlock()
	pc.Rd.WindowClose("close")
	pc.C.Close()
}

// PubClient is a recording (publishing) client.
type PubClient struct {
	C       *gortsplib.Client
	Desc    *description.Session
	T       *Traffic
	waitErr atomic.Value
}

// StartPublisher announces desc at path and starts recording.
func StartPublisher(ts *TestServer, desc *description.Session, o ClientOpts) (*PubClient, error) {
	c, u, err := newClient(ts, o)
	if err != nil {
		return nil, err
	}
	if o.Mutate != nil {
		o.Mutate(c)
	}
	if err := c.StartRecording(u.String(), desc); err != nil {
		return nil, err
	}
	pc := &PubClient{C: c, Desc: desc}
	go func() {
		if err := c.Wait(); err != nil {
			pc.waitErr.Store(err)
		}
	}()
	return pc, nil
}

// Died returns the error that ended the publisher, if it has ended.
func (pc *PubClient) Died() error {
	if v := pc.waitErr.Load(); v != nil {
		return v.(error)
	}
	return nil
}

// FlowPairs returns the (media index, payload type) pairs of a description.
func FlowPairs(d *description.Session) [][2]int {
	var out [][2]int
	for i, m := range d.Medias {
		for _, f := range m.Formats {
			out = append(out, [2]int{i, int(f.PayloadType())})
		}
	}
	return out
}

// MakeDesc builds a description with the given number of formats per media (generic dynamic
// payload types with distinct clock rates).
func MakeDesc(formatsPerMedia []int) *description.Session {
	d := &description.Session{}
	pt := 96
	rates := []int{90000, 48000, 44100, 8000, 16000}
	for i, n := range formatsPerMedia {
		m := &description.Media{Type: description.MediaTypeVideo}
		if i%2 == 1 {
			m.Type = description.MediaTypeAudio
		}
		if i >= 2 {
			m.Type = description.MediaTypeApplication
		}
		for k := 0; k < n; k++ {
			f := &format.Generic{PayloadTyp: uint8(pt), RTPMa: fmt.Sprintf("private/%d", rates[(pt-96)%len(rates)])}
			_ = f.Init()
			m.Formats = append(m.Formats, f)
			pt++
		}
		d.Medias = append(d.Medias, m)
	}
	return d
}

// WriteLoop writes n packets of flow f through write, pausing gap between packets; it stops
// early when stop is closed. Returns the number of packets written.
func WriteLoop(f *Flow, r *rand.Rand, n int, maxPayload int, gap time.Duration, write func(*rtp.Packet) error, stop <-chan struct{}) int {
	for i := 0; i < n; i++ {
		select {
		case <-stop:
			return i
		default:
		}
		pkt, idx := f.Next(r, maxPayload, false)
		err := write(pkt)
		f.Done(idx, err)
		if gap > 0 {
			time.Sleep(gap)
		}
	}
	return n
}

// Drain writes sentinel packets to flow f until every reader in rds has seen a counter >= the
// first sentinel (FIFO delivery then implies that everything written before was delivered or
// lost with a signal). It gives up after maxSentinels packets and reports which readers did
// not catch up.
func Drain(f *Flow, r *rand.Rand, maxPayload int, write func(*rtp.Packet) error, rds []*Reader, maxSentinels int, gap time.Duration) (stuck []*Reader) {
	firstSentinel := -1
	for i := 0; i < maxSentinels; i++ {
		pkt, idx := f.Next(r, maxPayload, true)
		if firstSentinel < 0 {
			firstSentinel = idx
		}
		err := write(pkt)
		f.Done(idx, err)
		time.Sleep(gap)
		all := true
		for _, rd := range rds {
			if v, ok := rd.LastSeen(f.Media, f.PT); !ok || int(v) < firstSentinel {
				all = false
				break
			}
		}
		if all {
			return nil
		}
	}
	for _, rd := range rds {
		if v, ok := rd.LastSeen(f.Media, f.PT); !ok || int(v) < firstSentinel {
			stuck = append(stuck, rd)
		}
	}
	return stuck
}

// DrainProgress is Drain without a wall-clock verdict. Sentinels are written in rounds of
// perRound; a reader that has not seen one at the end of a round is given another round as long
// as ANY delivery reached it during the round (it is working through a backlog - the first hop
// of a relay, kernel buffers of a slow consumer), up to maxRounds. It returns the readers that
// made no progress at all during a whole round (stuck: nothing flows towards them any more) and
// whether pending readers were still progressing when maxRounds ran out (slow: undecided).
func DrainProgress(f *Flow, r *rand.Rand, maxPayload int, write func(*rtp.Packet) error, rds []*Reader,
	perRound int, gap time.Duration, maxRounds int,
) (stuck []*Reader, slow []*Reader, rounds int) {
	firstSentinel := -1
	pending := func() []*Reader {
		var out []*Reader
		for _, rd := range rds {
			if v, ok := rd.LastSeen(f.Media, f.PT); !ok || firstSentinel < 0 || int(v) < firstSentinel {
				out = append(out, rd)
			}
		}
		return out
	}
	for rounds = 1; rounds <= maxRounds; rounds++ {
		before := map[*Reader]int{}
		for _, rd := range rds {
			before[rd] = rd.Delivered()
		}
		for i := 0; i < perRound; i++ {
			pkt, idx := f.Next(r, maxPayload, true)
			if firstSentinel < 0 {
				firstSentinel = idx
			}
			err := write(pkt)
			f.Done(idx, err)
			time.Sleep(gap)
			if len(pending()) == 0 {
				return nil, nil, rounds
			}
		}
		pend := pending()
		var moving, still []*Reader
		for _, rd := range pend {
			if rd.Delivered() > before[rd] {
				moving = append(moving, rd)
			} else {
				still = append(still, rd)
			}
		}
		if len(moving) == 0 {
			return still, nil, rounds
		}
	}
	return nil, pending(), maxRounds
}
