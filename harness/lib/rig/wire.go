package rig

import (
	"bufio"
	"crypto/tls"
	"errors"
	"fmt"
	"io"
	"net"
	"strconv"
	"time"

	"github.com/bluenviron/gortsplib/v5/pkg/base"
	"github.com/bluenviron/gortsplib/v5/pkg/conn"
)

// Peer is a raw RTSP peer over TCP (optionally TLS). It parses what the server sends with the
// library's own reader (pkg/conn) – the peer is a well-behaved reader and an arbitrary writer.
type Peer struct {
	NC     net.Conn
	C      *conn.Conn
	br     *bufio.Reader
	cseq   int
	Frames []*base.InterleavedFrame // interleaved frames seen while waiting for responses (copied)
	// KeepFrames limits how many frames are retained (0 = none retained, only counted)
	KeepFrames int
	FrameCount int
	// Tag, when set, is sent as X-Verif header with every request built by Request, so that
	// server-side hooks can attribute the connection to this peer
	Tag string
}

// Dial connects a Peer. localIP may be "" (default) or e.g. "127.0.0.2" to choose the source.
func Dial(addr string, tlsCfg *tls.Config, localIP string) (*Peer, error) {
	d := net.Dialer{Timeout: 5 * time.Second}
	if localIP != "" {
		d.LocalAddr = &net.TCPAddr{IP: net.ParseIP(localIP)}
	}
	nc, err := d.Dial("tcp", addr)
	if err != nil {
		return nil, err
	}
	if tc, ok := nc.(*net.TCPConn); ok {
		_ = tc.SetNoDelay(true)
	}
	if tlsCfg != nil {
		nc = tls.Client(nc, tlsCfg)
	}
	return NewPeer(nc), nil
}

// NewPeer wraps an established connection.
func NewPeer(nc net.Conn) *Peer {
	br := bufio.NewReaderSize(nc, 4096)
	return &Peer{NC: nc, br: br, C: conn.NewConn(br, nc)}
}

// Close closes the connection.
func (p *Peer) Close() { _ = p.NC.Close() }

// WriteRaw writes bytes as they are.
func (p *Peer) WriteRaw(b []byte) error {
	_ = p.NC.SetWriteDeadline(time.Now().Add(5 * time.Second))
	_, err := p.NC.Write(b)
	return err
}

// NextCSeq returns the next CSeq value.
func (p *Peer) NextCSeq() int { p.cseq++; return p.cseq }

// Request builds a request with a fresh CSeq.
func (p *Peer) Request(method base.Method, url string, hdr base.Header, body []byte) *base.Request {
	u, _ := base.ParseURL(url)
	h := base.Header{}
	for k, v := range hdr {
		h[k] = v
	}
	h["CSeq"] = base.HeaderValue{strconv.Itoa(p.NextCSeq())}
	if p.Tag != "" {
		h["X-Verif"] = base.HeaderValue{p.Tag}
	}
	return &base.Request{Method: method, URL: u, Header: h, Body: body}
}

// Send marshals and writes a request.
func (p *Peer) Send(req *base.Request) error {
	b, err := req.Marshal()
	if err != nil {
		return err
	}
	return p.WriteRaw(b)
}

// ErrTimeout is returned by ReadResponse when nothing arrived in time.
var ErrTimeout = errors.New("rig: timeout waiting for response")

// ReadResponse reads until a response arrives, skipping (and recording) interleaved frames.
// It returns io.EOF (or another error) when the server closed the connection, ErrTimeout on
// timeout.
func (p *Peer) ReadResponse(timeout time.Duration) (*base.Response, error) {
	deadline := time.Now().Add(timeout)
	for {
		_ = p.NC.SetReadDeadline(deadline)
		what, err := p.C.Read()
		if err != nil {
			var ne net.Error
			if errors.As(err, &ne) && ne.Timeout() {
				return nil, ErrTimeout
			}
			return nil, err
		}
		switch v := what.(type) {
		case *base.Response:
			return v, nil
		case *base.InterleavedFrame:
			p.FrameCount++
			if len(p.Frames) < p.KeepFrames {
				p.Frames = append(p.Frames, &base.InterleavedFrame{Channel: v.Channel, Payload: append([]byte(nil), v.Payload...)})
			}
		case *base.Request:
			// server-to-client requests are not expected from this server
			return nil, fmt.Errorf("unexpected request from server: %s", v.Method)
		}
	}
}

// ReadAny reads the next element (response or frame); frames are copied.
func (p *Peer) ReadAny(timeout time.Duration) (any, error) {
	_ = p.NC.SetReadDeadline(time.Now().Add(timeout))
	what, err := p.C.Read()
	if err != nil {
		var ne net.Error
		if errors.As(err, &ne) && ne.Timeout() {
			return nil, ErrTimeout
		}
		return nil, err
	}
	if v, ok := what.(*base.InterleavedFrame); ok {
		return &base.InterleavedFrame{Channel: v.Channel, Payload: append([]byte(nil), v.Payload...)}, nil
	}
	return what, nil
}

// Do sends a request and reads its response.
func (p *Peer) Do(req *base.Request, timeout time.Duration) (*base.Response, error) {
	if err := p.Send(req); err != nil {
		return nil, err
	}
	return p.ReadResponse(timeout)
}

// WaitClosed reports whether the server closes the connection (EOF / reset) within the
// timeout; anything the server still sends is discarded.
func (p *Peer) WaitClosed(timeout time.Duration) bool {
	deadline := time.Now().Add(timeout)
	buf := make([]byte, 4096)
	for {
		_ = p.NC.SetReadDeadline(deadline)
		_, err := p.br.Read(buf)
		if err != nil {
			var ne net.Error
			if errors.As(err, &ne) && ne.Timeout() {
				return false
			}
			return true
		}
	}
}

// IsClosedErr reports whether err means the peer's connection was ended by the other side.
func IsClosedErr(err error) bool {
	if err == nil {
		return false
	}
	if errors.Is(err, ErrTimeout) {
		return false
	}
	if errors.Is(err, io.EOF) || errors.Is(err, io.ErrUnexpectedEOF) || errors.Is(err, net.ErrClosed) {
		return true
	}
	var oe *net.OpError
	if errors.As(err, &oe) {
		return true
	}
	return true
}
