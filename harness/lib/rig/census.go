package rig

import (
	"os"
	"runtime"
	"sort"
	"strings"
	"sync"
	"sync/atomic"
	"time"
)

// LibGoroutines returns one entry per live goroutine whose stack contains a gortsplib frame:
// the innermost gortsplib function plus the creating function. Goroutines of the harness that
// merely call into the library (stack bottom in package main / verif) are excluded when
// excludeHarnessRooted is true and they were not created by library code.
func LibGoroutines() []string {
	buf := make([]byte, 1<<20)
	for {
		n := runtime.Stack(buf, true)
		if n < len(buf) {
			buf = buf[:n]
			break
		}
		buf = make([]byte, 2*len(buf))
	}
	var out []string
	for _, g := range strings.Split(string(buf), "\n\n") {
		lines := strings.Split(g, "\n")
		inner := ""
		created := ""
		for _, ln := range lines {
			if strings.HasPrefix(ln, "created by ") {
				created = strings.TrimPrefix(ln, "created by ")
				if i := strings.Index(created, " in goroutine"); i > 0 {
					created = created[:i]
				}
				continue
			}
			if strings.HasPrefix(ln, "\t") || strings.HasPrefix(ln, "goroutine ") {
				continue
			}
			if inner == "" && strings.Contains(ln, "github.com/bluenviron/gortsplib") {
				inner = ln
				if i := strings.LastIndex(inner, "("); i > 0 {
					inner = inner[:i]
				}
			}
		}
		// a goroutine belongs to the library if library code created it
		if strings.Contains(created, "github.com/bluenviron/gortsplib") ||
			strings.Contains(created, "github.com/pion/") || strings.Contains(created, "gorilla/websocket") {
			if inner == "" {
				inner = "(no lib frame)"
			}
			out = append(out, short(inner)+" <- "+short(created))
		}
	}
	sort.Strings(out)
	return out
}

func short(s string) string {
	s = strings.TrimPrefix(s, "github.com/bluenviron/gortsplib/v5/")
	s = strings.TrimPrefix(s, "github.com/bluenviron/gortsplib/v5.")
	return s
}

// WaitLibGoroutines polls until the number of library goroutines is <= want or the deadline
// passes; returns the last census.
func WaitLibGoroutines(want int, maxWait time.Duration) []string {
	deadline := time.Now().Add(maxWait)
	for {
		g := LibGoroutines()
		if len(g) <= want || time.Now().After(deadline) {
			return g
		}
		time.Sleep(20 * time.Millisecond)
	}
}

// OpenFDs returns the number of open file descriptors of the process.
func OpenFDs() int {
	d, err := os.ReadDir("/proc/self/fd")
	if err != nil {
		return -1
	}
	return len(d)
}

// Sockets returns the number of open socket descriptors of the process.
func Sockets() int {
	d, err := os.ReadDir("/proc/self/fd")
	if err != nil {
		return -1
	}
	n := 0
	for _, e := range d {
		if l, err := os.Readlink("/proc/self/fd/" + e.Name()); err == nil && strings.HasPrefix(l, "socket:") {
			n++
		}
	}
	return n
}

// WaitSockets polls until the socket count is <= want or the deadline passes.
func WaitSockets(want int, maxWait time.Duration) int {
	deadline := time.Now().Add(maxWait)
	for {
		n := Sockets()
		if n <= want || time.Now().After(deadline) {
			return n
		}
		time.Sleep(20 * time.Millisecond)
	}
}

// Canary measures scheduler lateness: a goroutine sleeps 5 ms in a loop and records the worst
// overshoot per 100 ms bucket. Timed verdicts are inconclusive when the canary was late during
// their own time window (WorstSince), so concurrent users do not disturb each other.
type Canary struct {
	mu      sync.Mutex
	buckets map[int64]time.Duration // unix-100ms bucket -> worst lateness
	worst   atomic.Int64
	stop    chan struct{}
	wg      sync.WaitGroup
}

// StartCanary starts the probe.
func StartCanary() *Canary {
	c := &Canary{stop: make(chan struct{}), buckets: map[int64]time.Duration{}}
	c.wg.Add(1)
	go func() {
		defer c.wg.Done()
		for {
			t0 := time.Now()
			select {
			case <-c.stop:
				return
			case <-time.After(5 * time.Millisecond):
			}
			now := time.Now()
			late := now.Sub(t0) - 5*time.Millisecond
			c.mu.Lock()
			// a late wake-up covers the whole interval [t0, now]
			for b := t0.UnixMilli() / 100; b <= now.UnixMilli()/100; b++ {
				if late > c.buckets[b] {
					c.buckets[b] = late
				}
			}
			if len(c.buckets) > 20000 {
				cut := now.UnixMilli()/100 - 10000
				for k := range c.buckets {
					if k < cut {
						delete(c.buckets, k)
					}
				}
			}
			c.mu.Unlock()
			for {
				cur := c.worst.Load()
				if int64(late) <= cur || c.worst.CompareAndSwap(cur, int64(late)) {
					break
				}
			}
		}
	}()
	return c
}

// WorstSince returns the worst lateness observed in the window [t, now].
func (c *Canary) WorstSince(t time.Time) time.Duration {
	c.mu.Lock()
	defer c.mu.Unlock()
	var w time.Duration
	for b := t.UnixMilli() / 100; b <= time.Now().UnixMilli()/100; b++ {
		if c.buckets[b] > w {
			w = c.buckets[b]
		}
	}
	return w
}

// Reset clears the global worst lateness and returns the previous value (single-user only;
// concurrent users should use WorstSince).
func (c *Canary) Reset() time.Duration { return time.Duration(c.worst.Swap(0)) }

// Worst returns the worst lateness since the last Reset.
func (c *Canary) Worst() time.Duration { return time.Duration(c.worst.Load()) }

// Stop stops the probe.
func (c *Canary) Stop() { close(c.stop); c.wg.Wait() }
