module verif

go 1.26.0

require (
	github.com/anishathalye/porcupine v1.3.0
	github.com/bluenviron/gortsplib/v5 v5.0.0
)

replace github.com/bluenviron/gortsplib/v5 => /repo
